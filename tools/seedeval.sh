#!/bin/sh
# usage: tools/seedeval.sh <ID> [checks...]   evaluates /tmp/seed/<ID>/seed_out against the worktree and my checks
# (no git stash: the stash is shared between worktrees)
ID=$1; shift
W=/tmp/seed/$ID
cd $W || exit 2
echo "== $ID: files"; ls seed_out 2>/dev/null | tr '\n' ' '; echo
# make the worktree exactly HEAD + patch.diff
git checkout -q -- nmfu.py && git checkout -q --detach $(git -C /repo rev-parse HEAD) && git apply seed_out/patch.diff && echo "patch applies cleanly to HEAD" || { echo "PATCH DOES NOT APPLY"; exit 3; }
git diff --stat -- nmfu.py | tail -1
echo "== pytest with change"; timeout 3000 /venv/bin/python -m pytest -q -p no:cacheprovider tests 2>&1 | tail -1
echo "== demo with change (expect fail)"; PYTHONPATH=$W timeout 900 /venv/bin/python seed_out/demo.py > /tmp/seed/$ID.demo_with.log 2>&1; echo "exit=$?"; tail -3 /tmp/seed/$ID.demo_with.log | cut -c1-300
git checkout -q -- nmfu.py
echo "== demo without change (expect pass)"; PYTHONPATH=$W timeout 900 /venv/bin/python seed_out/demo.py > /tmp/seed/$ID.demo_without.log 2>&1; echo "exit=$?"; tail -2 /tmp/seed/$ID.demo_without.log | cut -c1-300
git apply seed_out/patch.diff
cd /verif
for c in "$@"; do
  echo "== check $c against the change"
  VERIF_REPO=$W timeout 1500 ./check $c quick > /tmp/seed/$ID.$c.log 2>&1; echo "exit=$?"; grep -E "^VIOLATION|sig=|^\[C|HARNESS" /tmp/seed/$ID.$c.log | cut -c1-200 | head -8
done
git -C /verif checkout -q -- evidence 2>/dev/null
true
