#!/usr/bin/env python3
"""Regenerates MANIFEST.json from the table below and validates it against the schema."""
import json, os, sys
HERE = os.path.dirname(os.path.dirname(os.path.abspath(__file__)))

CHECKS = {
 # id: (technique, level text, level note, design ref)
 "C19": ("exhaustive enumeration of related-flag assignments + Hypothesis command lines vs a reference model of option resolution",
         "Exhaustive over all 3^11 on/off/absent assignments of the implies/exclusive-related flags x -O0..3 x argument orders and over the optimisation flags x levels; sampled (Hypothesis) for free-form and malformed command lines. Reference model restated from the flag metadata; invariants (implies closed, exclusives never both on, explicit overrides level, levels cumulative) checked on the real result as well.",
         "Flag metadata and level table are taken from nmfu as data. Free-form command lines are sampled, not exhaustive.", "5 C19"),
}

PENDING = {}

def main():
    props = [json.loads(l) for l in open(os.path.join(HERE, "properties.jsonl"))]
    extra = {}
    p = os.path.join(HERE, "tools", "manifest_table.json")
    if os.path.exists(p):
        extra = json.load(open(p))
    checks = []
    na = []
    table = dict(CHECKS)
    table.update({k: tuple(v) for k, v in extra.get("checks", {}).items()})
    for pr in props:
        pid = pr["id"]
        if pid in table:
            tech, text, note, ref = table[pid]
            checks.append({
                "property_id": pid,
                "quick_cmd": "./check %s quick" % pid,
                "thorough_cmd": "./check %s thorough" % pid,
                "evidence_file": "/verif/evidence/%s.json" % pid,
                "replay_cmd_template": "./check %s --replay {path}" % pid,
                "engine": "vlib",
                "level_claimed": {"category": "exploration", "text": text, "design_ref": "DESIGN.md section " + ref},
                "level_note": note,
                "technique": tech,
            })
        else:
            na.append({"property_id": pid, "reason": extra.get("na", {}).get(pid, "check not built yet in this round (machinery planned in DESIGN.md section 5); not claimed until a registered check exists")})
    man = {
        "version": 1,
        "setup_cmd": "(/venv/bin/python -c 'import hypothesis, lark' || /venv/bin/pip install --no-index --find-links /opt/veriftools/wheels hypothesis) && (PYTHONPATH=/verif/.deps /venv/bin/python -c 'import atheris' 2>/dev/null || /venv/bin/pip install -q --no-index --find-links /opt/veriftools/wheels --target /verif/.deps atheris)",
        "hooks": {
            "guard": "NMFU_VERIF",
            "enable": "no source hooks exist; checks import nmfu from /repo's working tree (PYTHONPATH) with NMFU_VERIF=1 set",
            "baseline_off_cmd": "cd /repo && /venv/bin/python -m pytest -ra -q -p no:cacheprovider --timeout=900 --continue-on-collection-errors",
            "source_commits": [],
            "add_only": True,
        },
        "engines": [
            {"name": "vlib", "path": "/verif/vlib", "serves_properties": [c["property_id"] for c in checks],
             "kind_free_text": "Python package: FRONT (in-process compiler driver), program/regex/expression generators on Hypothesis, independent regex-derivative automata, C arithmetic model, abstract machine over nmfu's DFA, C build-and-run driver"},
        ],
        "checks": checks,
        "not_applicable": na,
        "notes": "Technique family: property-based testing / fuzzing (Hypothesis 6.168 + exhaustive enumeration of finite sub-spaces). Exit 0 held, 1 VIOLATION, 2 harness error. See DESIGN.md.",
    }
    json.dump(man, open(os.path.join(HERE, "MANIFEST.json"), "w"), indent=1)
    try:
        import jsonschema
        jsonschema.validate(man, json.load(open("/root/.vp/MANIFEST.schema.json")))
        print("MANIFEST valid;", len(checks), "checks,", len(na), "not_applicable")
    except ImportError:
        print("jsonschema missing; not validated")

if __name__ == "__main__":
    main()
