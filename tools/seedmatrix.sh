#!/bin/sh
# usage: tools/seedmatrix.sh [ids...]   re-evaluates stored seeded changes against the current checks.
# Each change is applied to a scratch copy of /repo (never to /repo itself); the checks named in meta.json "caught_by" are run
# against the copy (VERIF_REPO). Output: one line per (seed, check). Scratch copies are removed as soon as they have been used.
cd /verif || exit 2
IDS="$@"
[ -z "$IDS" ] && IDS=$(ls seeded)
OUT=/tmp/seedmatrix.$$.txt
for id in $IDS; do
  W=/tmp/mx_$id
  rm -rf $W; mkdir -p $W
  (cd /repo && git archive HEAD | tar -x -C $W)
  if ! (cd $W && patch -p1 -s < /verif/seeded/$id/patch.diff); then echo "$id PATCH-DOES-NOT-APPLY"; rm -rf $W; continue; fi
  checks=$(python3 -c "import json;print(' '.join(json.load(open('/verif/seeded/$id/meta.json'))['caught_by']))")
  for c in $checks; do
    VERIF_REPO=$W timeout 2400 ./check $c quick > /tmp/mx_$id.$c.log 2>&1; rc=$?
    echo "$id $c exit=$rc $(grep -E 'sig=' /tmp/mx_$id.$c.log | head -2 | tr -s ' ' | tr '\n' ' ')"
  done
  rm -rf $W
done
git -C /verif checkout -q -- evidence 2>/dev/null
