#!/usr/bin/env python3
"""usage: tools/storeseed.py <SEEDID> <PROPERTY> <caught_by,comma> <detection notes>   copies /tmp/seed/<SEEDID>/seed_out into /verif/seeded/<SEEDID>/"""
import json, os, shutil, sys
sid, prop, caught, notes = sys.argv[1:5]
src = "/tmp/seed/%s/seed_out" % sid
dst = "/verif/seeded/%s" % sid
os.makedirs(dst, exist_ok=True)
for f in ("patch.diff", "demo.py"):
    shutil.copy(os.path.join(src, f), os.path.join(dst, f))
m = json.load(open(os.path.join(src, "meta.json")))
meta = {"property": prop, "summary": m.get("summary"), "needs": m.get("needs"),
        "author": "independent sub-agent (third round) given only the property text, one paragraph each about the two earlier changes to avoid, and a scratch worktree",
        "confirmed": "patch applies to /repo HEAD of that time; `pytest tests` 138 passed with the change; demo.py exits 1 with the change and 0 without (tools/seedeval.sh)",
        "caught_by": [c for c in caught.split(",") if c], "detection_notes": notes,
        "how_to_rerun": "git -C /repo apply /verif/seeded/%s/patch.diff && (cd /verif && ./check %s quick); git -C /repo checkout -- ." % (sid, prop)}
if m.get("side_finding"):
    meta["side_finding"] = m["side_finding"]
json.dump(meta, open(os.path.join(dst, "meta.json"), "w"), indent=1)
print("stored", dst)
