"""
C12 - representation options never change what is parsed.

One generated program is compiled under several representation-only option sets (string storage, char/u8,
hook style, user pointer, packed enums, guard style, direct/indirect start pointer, zero-length support,
range-collapse threshold); all binaries are driven one byte per call with the same guided inputs and the
per-call traces (result code, outputs content + length, hook sequence with arguments and visible outputs)
must be identical; pointer offsets are compared among the indirect-pointer binaries.
"""
import glob
import json
import os
import time

from hypothesis import strategies as st

from vlib import am as am_mod
from vlib import common, crun, front, gen, inputs, options, trace
from vlib.common import Failure, Shard


def strip_repr(argv):
    return [a for a in argv]


def check_program(shard, prog, base_argv, option_sets, choices_list, end_too=False):
    src = prog if isinstance(prog, str) else prog.source()
    replay = {"source": src, "base_argv": base_argv, "option_sets": option_sets}
    shard.event("programs_generated")
    comps = []
    for opts in option_sets:
        out = front.compile_src(src, base_argv + opts)
        if not out.accepted:
            if comps:
                raise Failure("c12:verdict-differs", "accepted with %r but %r with %r" % (option_sets[0], out, opts), replay)
            # rejected under the first option set: must be rejected under all
            for o2 in option_sets[1:]:
                out2 = front.compile_src(src, base_argv + o2)
                if out2.accepted and out.stage != "codegen":
                    raise Failure("c12:verdict-differs", "rejected with %r (%r) but accepted with %r" % (opts, out, o2), replay)
            shard.event("rejected")
            return
        comps.append(out.compiled)
    shard.event("programs")
    m = am_mod.Machine(comps[0])
    datas = []
    for ch in choices_list:
        d = ch if isinstance(ch, (bytes, bytearray)) else inputs.guided_input(m, ch)
        if not d:
            continue
        # inputs on which the program reads an output byte it never stored (or overflows a signed int) have no
        # defined outcome to compare; the abstract machine detects them
        try:
            # (including the end() call the binaries will receive: an undefined read may happen there as well)
            trace.am_calls(m, [d[j:j + 1] for j in range(len(d))], call_end=bool(end_too and comps[0].do("EOF_SUPPORT")), indirect=comps[0].do("INDIRECT_START_PTR"))
        except am_mod.Undefined:
            shard.event("input_undefined_skipped")
            continue
        except am_mod.Spin:
            shard.event("input_spin_skipped")
            continue
        datas.append(d)
    if not datas:
        return
    # byte sweep: after up to four prefixes of the guided inputs every byte value once (how a transition's byte set is rendered - range
    # checks, collapsed runs, single comparisons - depends on the options; one representative per class would miss a single dropped value)
    pres = []
    for d in datas[:2]:
        for cut in (0, len(d) // 2, max(0, len(d) - 1)):
            if d[:cut] not in pres:
                pres.append(d[:cut])
    nsweep = 0
    for pre in pres[:4]:
        for b in range(256):
            w = pre + bytes([b])
            try:
                trace.am_calls(m, [w[j:j + 1] for j in range(len(w))], call_end=bool(end_too and comps[0].do("EOF_SUPPORT")), indirect=comps[0].do("INDIRECT_START_PTR"))
            except (am_mod.Undefined, am_mod.Spin):
                continue
            datas.append(w)
            nsweep += 1
    shard.event("sweep_inputs", nsweep)
    bins = []
    try:
        for i, c in enumerate(comps):
            try:
                bins.append(crun.Binary(c, tag="b%d" % i))
            except crun.BuildError as e:
                raise Failure("c12:c-build-error", "options %r: generated C does not build:\n%s" % (option_sets[i], str(e)[-1200:]), replay)
        traces = []
        for i, b in enumerate(bins):
            sc = crun.Script()
            for d in datas:
                chunks = [d[j:j + 1] for j in range(len(d))]
                sc.b += trace.script_for(chunks, call_end=b.info.eof and end_too, call_free=b.info.dynmem, move=True).b
            rc, out, err = b.run_raw(sc)
            if rc != 0:
                kind = "hang" if rc == 3 else "crash"
                raise Failure("c12:c-%s" % kind, "options %r: driver exit %s\n%s\n%s" % (option_sets[i], rc, out[-400:], err[-800:]),
                              dict(replay, inputs=[d.hex() for d in datas]))
            traces.append([trace.c_calls(r) for r in crun.parse_log(out)])
        ref = traces[0]
        nontrivial = False
        for i in range(1, len(traces)):
            for d, ra, rb in zip(datas, ref, traces[i]):
                shard.event("evaluations")
                a = [c for c in ra if c.kind != "free"]
                b = [c for c in rb if c.kind != "free"]
                both_ind = bins[0].info.indirect and bins[i].info.indirect
                diff = trace.first_diff(a, b, with_state=False, with_off=both_ind)
                if diff:
                    raise Failure("c12:trace-differs:" + classify(a, b, diff[0], both_ind),
                                  "options A=%r\noptions B=%r\ninput=%s\n%s" % (option_sets[0], option_sets[i], d.hex(), diff[1]),
                                  dict(replay, input=d.hex()))
                if any(c.hooks for c in a) and any(isinstance(v, tuple) and v[0] > 0 for c in a for v in c.vars.values()):
                    nontrivial = True
        if nontrivial and len(traces) >= 3:
            shard.nontriv(src)
            shard.event("class:hook_and_string_write")
        if len(shard.samples) < 2:
            shard.sample({"source": src, "base_argv": base_argv, "option_sets": option_sets, "inputs": [d.hex() for d in datas[:3]]})
    finally:
        for b in bins:
            b.close()


def classify(a, b, i, with_off=True):
    if i >= len(a) or i >= len(b):
        return "call-count"
    x, y = a[i], b[i]
    if x.code != y.code:
        return "code"
    if with_off and x.off != y.off:
        return "offset"
    if x.hooks != y.hooks:
        return "hooks"
    return "outputs"


@st.composite
def probe_program(draw):
    """Focused family: bytes taken from the input are stored and then read back by index / length in expressions."""
    from vlib import ir
    signed, size = draw(st.sampled_from([(True, None), (False, 1), (True, 1), (False, 2), (True, 8), (False, 8)]))
    term = draw(st.booleans())
    ssize = draw(st.sampled_from([2, 3, 4, 8]))
    outs = [("int", "n0", signed, size, 0), ("str", "s0", ssize, term, None, False), ("bool", "b0", False)]
    nread = draw(st.integers(1, min(3, ssize - 1)))
    pat = draw(st.sampled_from([("re", ("any",), False), ("re", ("set", (("r", 0x61, 0x7a),), True), False),
                                ("re", ("set", (("r", 0x00, 0x7f),), True), True)]))
    body = [("append", "s0", pat) for _ in range(nread)]
    i = draw(st.integers(0, nread - 1))
    if term and draw(st.integers(0, 2)) == 0:
        # the string is emptied again before it is read: s0[0] is then the terminator in every representation (heap buffers kept or released)
        body.append(draw(st.sampled_from([("delete", "s0"), ("assignstr", "s0", b""), ("delete", "s0")])))
        i = 0
    idx = ("idx", "s0", ("num", i, "dec"))
    k = ("num", draw(st.sampled_from([0, 1, 100, 127, 128, 200, 255])), "dec")
    use = draw(st.sampled_from(["assign", "assign-expr", "if-hook", "if-assign", "appendc"]))
    if use == "assign":
        body.append(("assign", "n0", idx))
    elif use == "assign-expr":
        body.append(("assign", "n0", ("bin", draw(st.sampled_from(["+", "-", "|", "&", "^", ">>", "*"])), idx, ("num", draw(st.sampled_from([1, 2, 3])), "dec"))))
    elif use == "if-hook":
        body.append(("if", ((("bin", draw(st.sampled_from(["<", ">", "==", ">=", "!="])), idx, k), (("hook", "h0"),)),), None))
    elif use == "if-assign":
        body.append(("if", ((("bin", draw(st.sampled_from(["<", ">", "<="])), idx, k), (("assign", "b0", ("bool", True)),)),), (("assign", "n0", ("len", "s0")),)))
    else:
        body.append(("appendc", "s0", ("bin", "+", idx, ("num", 1, "dec"))))
    body.append(("match", ("lit", b"z", "str")))
    body.append(("hook", "h0"))
    prog = ir.Program(outs, ["h0"], [], [], [], tuple(body), [draw(st.sampled_from(gen.OPT_LEVELS))])
    return prog


@st.composite
def probe_case(draw):
    prog = draw(probe_program())
    nsets = draw(st.integers(3, 4))
    sets = [draw(options.repr_options()) for _ in range(nsets)]
    # make sure char and u8 are both represented
    if not any("-fstrings-as-u8" in s_ for s_ in sets):
        sets[0] = sets[0] + ["-fstrings-as-u8"]
    if all("-fstrings-as-u8" in s_ for s_ in sets):
        sets[1] = [a for a in sets[1] if a != "-fstrings-as-u8"]
    if any(st_[0] == "delete" or st_[0] == "assignstr" for st_ in prog.body):
        # a buffer that is allocated on demand and kept on delete must be among the representations
        sets[-1] = ["-fallocate-str-space-dynamic-on-demand"] + [a for a in sets[-1] if not a.startswith("-fallocate") and a != "-fdelete-string-free-memory"]
    data = bytes(draw(st.lists(st.sampled_from([0x00, 0x41, 0x61, 0x7a, 0x7f, 0x80, 0x9c, 0xff]), min_size=1, max_size=4))) + b"z"
    return prog, list(prog.argv), sets, [data], "probe"


@st.composite
def case_strategy(draw):
    if draw(st.integers(0, 3)) == 0:
        return draw(probe_case())
    mode = draw(st.sampled_from(["plain", "plain", "plain", "yield", "eof"]))
    cfg = gen.GenConfig(max_depth=2, max_stmts=5, allow_yield=(mode == "yield"), allow_end=(mode == "eof"),
                        n_strs=(1, 3), n_hooks=(1, 2), wide_bytes=0.2,
                        kinds={"yield": 2 if mode == "yield" else 0, "append": 5, "hook": 4, "delete": 2, "assignstr": 2, "appendc": 2})
    prog = draw(gen.program(cfg))
    nsets = draw(st.integers(3, 4))
    sets = [draw(options.repr_options(indirect=True if mode == "yield" else None)) for _ in range(nsets)]
    choices = draw(st.lists(st.lists(st.integers(0, 4095), min_size=1, max_size=24), min_size=1, max_size=4))
    return prog, list(prog.argv), sets, choices, mode


def worker(job):
    seed, n, known, stop_at = job
    shard = Shard()

    def body(val):
        prog, argv, sets, choices, mode = val
        check_program(shard, prog, argv, sets, choices, end_too=(mode == "eof"))

    common.hyp_run(shard, body, case_strategy(), n, seed, known_keys=known, stop_at=stop_at)
    return shard


def regress_worker(job):
    path, known = job
    shard = Shard()
    with open(path) as fh:
        d = json.load(fh)
    try:
        check_program(shard, d["source"], d["base_argv"], d["option_sets"], d.get("choices", [[9, 9, 9, 9, 17, 25, 33]]))
    except Failure as f:
        if f.sig in known:
            shard.known_hits[f.sig] += 1
        else:
            shard.failures.append({"sig": f.sig, "what": "regression case %s: %s" % (path, f.what), "replay": f.replay})
    shard.event("regression_cases")
    return shard


def main(ctx):
    quick = ctx.tier == "quick"
    known = tuple(ctx.open_keys)
    reg = sorted(glob.glob(os.path.join(common.VERIF_DIR, "regress", "C12", "*.json")))
    ctx.pmap(regress_worker, [(p, known) for p in reg])
    n = 70 if quick else 700
    stop_at = time.time() + (70 if quick else 900)
    ctx.pmap(worker, [(ctx.seed * 100003 + i, n, known, stop_at) for i in range(common.NPROC)])
    ctx.rule = ("case = (generated program with strings/hooks/deletes, 3-4 representation-only option sets, guided inputs); every binary "
                "is run one byte per call and per-call (code, outputs, hook sequence with arguments and visible outputs) compared exactly "
                "with the first option set; offsets compared among indirect-pointer binaries. Non-trivial: >= 3 configurations compared on "
                "inputs triggering a hook and a string write; distinct by source.")
    ctx.assumptions = ["the first option set's binary is the reference; all sets are produced through the real CLI resolver",
                       "scalars without default are zeroed by the driver before start()"]
    ctx.required_classes = ["programs", "class:hook_and_string_write"]


def replay(ctx, data):
    rp = data["replay"]
    print(rp["source"])
    print(rp["base_argv"], rp["option_sets"])
    return 0
