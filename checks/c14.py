"""
C14 - math expressions evaluate as C arithmetic over the parser's variables.

Type-directed random expression trees over all operators and atoms are printed with the minimum parentheses nmfu's
grammar needs, packed 30-40 per parser behind a selector-letter case, and evaluated by the generated C for several
valuations of the source variables (poked into the state struct by the driver).  Oracle: the same tree evaluated
with explicit C typing / promotion / conversion rules on big integers (vlib/carith.py, vlib/evalir.py); cases whose
C evaluation is undefined (signed overflow, bad shifts, /0) are discarded and counted.
Contexts: assignment to each integer type and to bool, char-append, action-only if/elif/else (conditional action),
if with consuming branches (condition point), string index position, integers used as conditions.
"""
import glob
import json
import os
import string
import time

from hypothesis import strategies as st

from vlib import carith, common, crun, evalir, front, ir
from vlib.carith import Undefined
from vlib.common import Failure, Shard

SELECTORS = string.ascii_uppercase + string.ascii_lowercase
INT_TYPES = [(True, 1), (False, 1), (True, 2), (False, 2), (True, 4), (False, 4), (True, 8), (False, 8)]
SRC_INTS = ["a%d" % i for i in range(8)]


def boundary(t):
    lo, hi = carith.type_range(t)
    vals = {0, 1, 2, 3, 7, 10, 48, 100, hi, hi - 1, lo}
    if lo < 0:
        vals |= {-1, -2, lo + 1}
    return sorted(v for v in vals if lo <= v <= hi)


# ------------------------------------------------------------------ expression strategies

ARITH = ["+", "-", "*", "/", "%", "&", "|", "^", "<<", ">>"]
CMP = ["==", "!=", "<", ">", "<=", ">="]


@st.composite
def int_atom(draw, allow_last, unsafe, allow_bool=False):
    k = draw(st.sampled_from(["num", "num", "var", "var", "var", "chr", "len", "idx", "bool", "last"]))
    if k == "last" and not allow_last:
        k = "var"
    if k == "bool" and not allow_bool:
        k = "num"          # true/false are only integer-typed directly inside an assignment to an integer output
    if k == "num":
        v = draw(st.sampled_from([0, 1, 2, 3, 5, 7, 8, 10, 31, 32, 48, 63, 64, 100, 127, 128, 255, 256, 1000, 32767, 65535, 65536,
                                  2**31 - 1, 2**31, 2**32 - 1, 2**32, 2**40]))
        if draw(st.integers(0, 5)) == 0:
            v = -v
        radix = draw(st.sampled_from(["dec", "dec", "hex", "bin"]))
        if radix == "bin" and v < 0:
            radix = "dec"
        return ("num", v, radix)
    if k == "var":
        return ("var", draw(st.sampled_from(SRC_INTS)))
    if k == "chr":
        return ("chr", draw(st.sampled_from([0x30, 0x39, 0x41, 0x61, 0x20, 0x0a, 0x00, 0x7e, 0x5c, 0x27])))
    if k == "len":
        return ("len", "s0")
    if k == "bool":
        return ("bool", draw(st.booleans()))
    if k == "last":
        return ("last",)
    if unsafe:
        return ("idx", "s0", ("num", draw(st.integers(0, 7)), "dec"))
    return ("idx", "s0", draw(st.one_of(st.sampled_from([("num", i, "dec") for i in (0, 1, 2, 6, 7, 8, 9, 100, -1)]), st.just(("var", "a1")),
                                        st.just(("bin", "-", ("var", "a0"), ("num", 1, "dec"))))))


@st.composite
def int_tree(draw, depth, allow_last, unsafe, allow_bool=False):
    if depth <= 0 or draw(st.integers(0, 4)) == 0:
        return draw(int_atom(allow_last, unsafe, allow_bool))
    k = draw(st.integers(0, 11))
    if k == 11:
        return ("neg", draw(int_tree(depth - 1, allow_last, unsafe, allow_bool)))
    op = draw(st.sampled_from(ARITH))
    l = draw(int_tree(depth - 1, allow_last, unsafe, allow_bool))
    if op in ("/", "%") and draw(st.integers(0, 3)) != 0:
        r = ("num", draw(st.sampled_from([1, 2, 3, 7, 10, 255, -1, -3])), "dec")
    elif op in ("<<", ">>") and draw(st.integers(0, 3)) != 0:
        r = ("num", draw(st.sampled_from([0, 1, 2, 4, 7, 8, 15, 16, 31])), "dec")
    else:
        r = draw(int_tree(depth - 1, allow_last, unsafe, allow_bool))
    return ("bin", op, l, r)


@st.composite
def cond_tree(draw, depth, allow_last, unsafe):
    k = draw(st.sampled_from(["cmp", "cmp", "cmp", "and", "or", "not", "boolvar", "int", "cmpbool"]))
    if depth <= 0 and k in ("and", "or", "not"):
        k = "cmp"
    if k == "cmp":
        return ("bin", draw(st.sampled_from(CMP)), draw(int_tree(max(depth - 1, 0), allow_last, unsafe)), draw(int_tree(max(depth - 1, 0), allow_last, unsafe)))
    if k == "boolvar":
        return ("var", draw(st.sampled_from(["p", "q"])))
    if k == "int":
        return draw(int_tree(max(depth - 1, 0), allow_last, unsafe))
    if k == "cmpbool":
        return ("bin", draw(st.sampled_from(["==", "!="])), draw(cond_tree(0, allow_last, unsafe)), draw(cond_tree(0, allow_last, unsafe)))
    if k == "not":
        return ("not", draw(cond_tree(depth - 1, allow_last, unsafe)))
    return ("bin", "&&" if k == "and" else "||", bool_sorted(draw(cond_tree(depth - 1, allow_last, unsafe))), bool_sorted(draw(cond_tree(depth - 1, allow_last, unsafe))))


def sort_of(e):
    k = e[0]
    if k == "bin":
        return "bool" if e[1] in CMP or e[1] in ("&&", "||") else "int"
    if k == "not":
        return "bool"
    if k == "var":
        return "bool" if e[1] in ("p", "q", "bt") else "int"
    if k == "bool":
        return "bool"
    return "int"


def bool_sorted(e):
    """&& and || need BOOL-typed operands in nmfu: wrap an int-sorted operand into `e != 0`."""
    if sort_of(e) == "bool":
        return e
    return ("bin", "!=", e, ("num", 0, "dec"))


@st.composite
def boolvar_tree(draw, depth):
    """Expressions assignable to a bool output (every leaf bool-typed)."""
    if depth <= 0:
        return draw(st.sampled_from([("var", "p"), ("var", "q"), ("bool", True), ("bool", False)]))
    k = draw(st.sampled_from(["and", "or", "not", "eq", "leaf"]))
    if k == "leaf":
        return draw(boolvar_tree(0))
    if k == "not":
        return ("not", draw(boolvar_tree(depth - 1)))
    op = {"and": "&&", "or": "||", "eq": draw(st.sampled_from(["==", "!="]))}[k]
    return ("bin", op, draw(boolvar_tree(depth - 1)), draw(boolvar_tree(depth - 1)))


@st.composite
def item(draw, unsafe):
    ctx = draw(st.sampled_from(["assign", "assign", "assign", "appendc", "ifact", "ifact", "elif", "ifpoint", "index", "boolassign", "intcond"]))
    d = draw(st.integers(1, 4))
    if ctx == "assign":
        return (ctx, draw(st.integers(0, 7)), draw(int_tree(d, True, unsafe, allow_bool=True)))
    if ctx == "appendc":
        return (ctx, None, draw(int_tree(d, True, unsafe)))
    if ctx == "ifact":
        return (ctx, None, draw(cond_tree(min(d, 3), True, unsafe)))
    if ctx == "elif":
        return (ctx, None, (draw(cond_tree(min(d, 2), True, unsafe)), draw(cond_tree(min(d, 2), True, unsafe))))
    if ctx == "ifpoint":
        return (ctx, None, draw(cond_tree(min(d, 3), False, unsafe)))
    if ctx == "index":
        e = draw(int_tree(min(d, 2), True, unsafe))
        if unsafe:
            e = ("bin", "&", e, ("num", 7, "dec"))
        return (ctx, None, e)
    if ctx == "boolassign":
        return (ctx, None, draw(boolvar_tree(min(d, 3))))
    return ("intcond", None, draw(int_tree(min(d, 2), True, unsafe)))


@st.composite
def batch(draw):
    unsafe = draw(st.integers(0, 4)) == 0
    items = draw(st.lists(item(unsafe), min_size=10, max_size=36))
    nval = draw(st.integers(4, 10))
    vals = []
    for _ in range(nval):
        v = {}
        for i, (sg, sz) in enumerate(INT_TYPES):
            v["a%d" % i] = draw(st.sampled_from(boundary(carith.int_type(sg, sz))))
        v["p"] = draw(st.integers(0, 1))
        v["q"] = draw(st.integers(0, 1))
        v["s0"] = draw(st.sampled_from([b"", b"a", b"\x80\xff", b"0123456", b"ab\x00c", b"\x7f\x80\x81"]))
        vals.append(v)
    argv = [draw(st.sampled_from(["-O0", "-O1", "-O2", "-O3"])), "-findirect-start-ptr"]
    if unsafe:
        argv.append("-funsafe-string-indexing")
    if draw(st.booleans()):
        argv.append("-fstrings-as-u8")
    if draw(st.integers(0, 3)) == 0:
        argv.append(draw(st.sampled_from(["-fallocate-str-space-dynamic", "-fallocate-str-space-dynamic-on-demand"])))
    return items, vals, argv, unsafe


def type_decl(sg, sz):
    return "int{%s, size %d}" % ("signed" if sg else "unsigned", sz)


def build_source(items):
    decls = []
    for i, (sg, sz) in enumerate(INT_TYPES):
        decls.append("out %s a%d = 0;" % (type_decl(sg, sz), i))
    decls += ["out bool p = false;", "out bool q = false;", "out str[8] s0;"]
    for i, (sg, sz) in enumerate(INT_TYPES):
        decls.append("out %s t%d = 0;" % (type_decl(sg, sz), i))
    decls += ["out int m = 0;", "out bool bt = false;", "out unterminated str[2] so;"]
    clauses = []
    for i, (ctx, k, e) in enumerate(items):
        sel = SELECTORS[i]
        if ctx == "assign":
            body = "t%d = [%s];" % (k, ir.print_expr(e))
        elif ctx == "appendc":
            body = "so += [%s];" % ir.print_expr(e)
        elif ctx == "ifact":
            body = "if %s { m = 1; } else { m = 2; }" % ir.print_expr(e)
        elif ctx == "intcond":
            body = "if %s { m = 1; } else { m = 2; }" % ir.print_expr(e)
        elif ctx == "elif":
            body = "if %s { m = 1; } elif %s { m = 2; } else { m = 3; }" % (ir.print_expr(e[0]), ir.print_expr(e[1]))
        elif ctx == "ifpoint":
            body = "if %s { \"x\"; m = 1; } else { \"y\"; m = 2; }" % ir.print_expr(e)
        elif ctx == "index":
            body = "t5 = [s0[%s]];" % ir.print_expr(e)
        elif ctx == "boolassign":
            body = "bt = [%s];" % ir.print_expr(e)
        clauses.append('        "%s" -> { %s }' % (sel, body))
    return "\n".join(decls) + "\nparser {\n    case {\n" + "\n".join(clauses) + "\n    }\n}\n"


def expected(ctx, k, e, env):
    """Returns dict of observed-name -> value, plus the input suffix to feed after the selector."""
    if ctx == "assign":
        v = evalir.ev(e, env)
        return {"t%d" % k: carith.convert(carith.int_type(*INT_TYPES[k]), v[1])}, b""
    if ctx == "appendc":
        v = evalir.ev(e, env)
        return {"so": (1, bytes([carith.convert(carith.U8, v[1])]))}, b""
    if ctx in ("ifact", "intcond"):
        return {"m": 1 if carith.truth(evalir.ev(e, env)) else 2}, b""
    if ctx == "elif":
        if carith.truth(evalir.ev(e[0], env)):
            return {"m": 1}, b""
        return {"m": 2 if carith.truth(evalir.ev(e[1], env)) else 3}, b""
    if ctx == "ifpoint":
        t = carith.truth(evalir.ev(e, env))
        return {"m": 1 if t else 2}, (b"x" if t else b"y")
    if ctx == "index":
        v = evalir.ev(("idx", "s0", e), env)
        return {"t5": carith.convert(carith.int_type(False, 4), v[1])}, b""
    if ctx == "boolassign":
        return {"bt": 1 if carith.truth(evalir.ev(e, env)) else 0}, b""
    raise ValueError(ctx)


def run_batch(shard, items, vals, argv, unsafe):
    src = build_source(items)
    replay = {"source": src, "argv": argv}
    out = front.compile_src(src, argv)
    shard.event("programs")
    if not out.accepted:
        # find the culprit for the signature
        culprit = None
        for it in items:
            o2 = front.compile_src(build_source([it]), argv)
            if not o2.accepted:
                culprit = (it, o2)
                break
        raise Failure("c14:not-accepted:%s:%s" % (out.stage, type(out.exc).__name__) + (":" + culprit[0][0] if culprit else ""),
                      "well-typed expression program not accepted: %r\nculprit: %r\n%s" % (out, culprit and ir.print_expr(culprit[0][2]) if culprit and culprit[0][0] != "elif" else culprit, src[-600:]),
                      replay)
    comp = out.compiled
    try:
        binary = crun.Binary(comp)
    except crun.BuildError as e:
        raise Failure("c14:c-build-error", str(e)[-1200:], replay)
    info = binary.info
    vidx = {v.name: v.idx for v in info.vars}
    try:
        plan = []
        sc = crun.Script()
        for vi, val in enumerate(vals):
            for i, (ctx, k, e) in enumerate(items):
                sel = SELECTORS[i].encode()
                ints = {"a%d" % j: (carith.int_type(*INT_TYPES[j]), val["a%d" % j]) for j in range(8)}
                env = evalir.Env(ints=ints, bools={"p": val["p"], "q": val["q"]},
                                 bufs={"s0": {"kind": "str", "size": 8, "term": True, "data": val["s0"]}},
                                 last=sel[0] if ctx != "ifpoint" else None, unsafe=unsafe)
                try:
                    want, suffix = expected(ctx, k, e, env)
                except Undefined:
                    shard.event("discarded_undefined")
                    continue
                sc.start(move=False, snap=False)
                for j in range(8):
                    sc.poke(vidx["a%d" % j], val["a%d" % j])
                sc.poke(vidx["p"], val["p"]).poke(vidx["q"], val["q"])
                sc.poke_str(vidx["s0"], val["s0"])
                sc.feed(sel + suffix)
                sc.stop()
                plan.append((vi, i, want, suffix))
        if not plan:
            return
        rc, outp, err = binary.run_raw(sc)
        if rc != 0:
            raise Failure("c14:c-crash", "driver exit %s\n%s" % (rc, err[-800:]), replay)
        runs = crun.parse_log(outp)
        if len(runs) != len(plan):
            raise common.HarnessError("run count mismatch")
        for (vi, i, want, suffix), run in zip(plan, runs):
            ctx, k, e = items[i]
            last = [ev for ev in run if ev.kind == "R" and ev.name == "feed"][-1]
            shard.event("evaluations")
            shard.event("ctx:" + ctx)
            ok = last.code == 2
            got = {}
            for name, w in want.items():
                g = last.snap.vars.get(name)
                if isinstance(g, tuple):
                    g = (g[0], g[1])
                got[name] = g
                if g != w:
                    ok = False
            if not ok:
                etxt = ir.print_expr(e) if ctx != "elif" else "%s / %s" % (ir.print_expr(e[0]), ir.print_expr(e[1]))
                raise Failure("c14:value:" + ctx + sig_detail(ctx, e),
                              "context %s expression [%s]\nvaluation %r\nexpected %r with DONE, observed %r code %s" % (ctx, etxt, vals[vi], want, got, last.code),
                              dict(replay, context=ctx, expr=etxt, valuation={k2: (v2.hex() if isinstance(v2, bytes) else v2) for k2, v2 in vals[vi].items()}))
            ops = evalir.ops_of(e if ctx != "elif" else e[0])
            levels = set(ir.PREC.get(o, 9) for o in ops)
            if len(set(ops)) >= 3 and len(levels) >= 2:
                shard.nontriv(repr((ctx, e)))
    finally:
        binary.close()
    if len(shard.samples) < 3:
        ctx, k, e = items[0]
        shard.sample({"context": ctx, "expr": ir.print_expr(e) if ctx != "elif" else [ir.print_expr(x) for x in e], "argv": argv, "valuation": {k2: (v2.hex() if isinstance(v2, bytes) else v2) for k2, v2 in vals[0].items()}})


def sig_detail(ctx, e):
    ops = set(evalir.ops_of(e if ctx != "elif" else e[0]))
    for fam, members in (("shift", {"<<", ">>"}), ("div", {"/", "%"}), ("logic", {"&&", "||", "not"}), ("bitwise", {"&", "|", "^"}), ("cmp", set(CMP))):
        if ops & members:
            return ":" + fam
    return ""


def worker(job):
    seed, n, known, stop_at = job
    shard = Shard()

    def body(val):
        items, vals, argv, unsafe = val
        run_batch(shard, items, vals, argv, unsafe)

    common.hyp_run(shard, body, batch(), n, seed, known_keys=known, stop_at=stop_at)
    return shard


def main(ctx):
    quick = ctx.tier == "quick"
    known = tuple(ctx.open_keys)
    n = 60 if quick else 800
    stop_at = time.time() + (70 if quick else 900)
    ctx.pmap(worker, [(ctx.seed * 100003 + i, n, known, stop_at) for i in range(common.NPROC)])
    ctx.rule = ("case = (expression tree, context, valuation of 8 integer sources of every width/sign + 2 bools + a string); 10-36 expressions per "
                "generated parser x 4-10 valuations; evaluations = (expression, valuation) pairs compared with the big-integer C evaluator; "
                "C-undefined evaluations are discarded (counted). Non-trivial: tree with >= 3 distinct operators on >= 2 precedence levels; "
                "distinct by (context, tree).")
    ctx.assumptions = ["LP64, gcc: out-of-range conversion to a signed type wraps, >> on negative values is arithmetic",
                       "$last only in the contexts the reference guarantees (clause body that matches nothing after the selector)"]
    ctx.required_classes = ["ctx:assign", "ctx:appendc", "ctx:ifact", "ctx:elif", "ctx:ifpoint", "ctx:index", "ctx:boolassign", "ctx:intcond"]


def replay(ctx, data):
    rp = data["replay"]
    print(rp["source"])
    print(rp["argv"], rp.get("expr"), rp.get("valuation"))
    return 0
