"""
C01 - accepted programs behave as their procedural reading prescribes.

Reference model: vlib/ri.py, an interpreter of the statement language written from parser.md (predictive reading with
one byte of lookahead, handlers as exceptions, case patterns advanced in parallel, restart semantics for wait, ...).
For every accepted generated program, *every* input up to length L over the program's byte-class representatives is
executed by the abstract machine over the compiled DFA (joint prefix walk) and by the reference interpreter, and
compared under the documented slack only:
  * strict events (hook calls with the outputs they see, appends, self-referential assignments, yields) must form the
    same sequence; an event the reading performs after g consumed bytes may be executed while dispatching byte g-1 or g;
  * terminal result: fail at the offending byte exactly; done / finish code within the same one-byte window; when the
    end of the program is reached by lookahead, done or fail at that byte (T5);
  * outputs at every hook and at the terminal result are equal; at the end of a finite input the implementation may lag
    by the events of the last position (T2).
Sampled long inputs are additionally run through the gcc-built C parser against the reference interpreter.
"""
import glob
import json
import os
import time

from hypothesis import strategies as st

from vlib import am as am_mod
from vlib import common, crun, front, gen, inputs, ir, ri, trace, walk
from vlib.carith import Undefined
from vlib.common import Failure, Shard

STRICT_KINDS = ("hook", "append", "yield", "setx")


def _reads(e, name):
    return gen._reads(e, name)


def ri_strict_events(prog, outcome, drop=()):
    """Filter the reference events to the strictly scheduled ones, in the AM's vocabulary. drop: indices (into outcome.events) left out."""
    ny = 3 + len(prog.fcodes)
    out = []
    for i_, (g, kind, payload) in enumerate(outcome.events):
        if i_ in drop:
            continue
        if kind == "hook":
            out.append((g, "hook", (payload[0], payload[1])))
        elif kind == "append":
            out.append((g, "append", payload))
        elif kind == "yield":
            out.append((g, "yield", (ny + prog.ycodes.index(payload[0]),)))
        elif kind == "set" and payload[0] in prog._selfref:
            out.append((g, "setx", (payload[0], payload[1])))
    return out


def am_strict_events(tl, selfref):
    out = []
    for k, kind, payload in tl.events:
        if kind == "hook":
            out.append((k, "hook", payload))
        elif kind == "append":
            out.append((k, "append", payload))
        elif kind == "yield":
            out.append((k, "yield", payload))
        elif kind == "set" and payload[0] in selfref:
            out.append((k, "setx", (payload[0], payload[1])))
    return out


def selfref_vars(prog):
    """Outputs that are the target of a self-referential assignment somewhere (those sets are timing strict)."""
    names = set()

    def visit(s):
        if s[0] == "assign" and _reads(s[2], s[1]):
            names.add(s[1])
        if s[0] == "if":
            for _, b in s[1]:
                for x in b:
                    visit(x)
            if s[2]:
                for x in s[2]:
                    visit(x)
    ir.walk(prog.body, visit)
    return names


def mixed_selfref(prog):
    """Does some output receive both self-referential and plain assignments?  (then plain sets are compared too loosely;
    such programs are compared on hooks/appends/yields/terminal only)"""
    plain = set()

    def visit(s):
        if s[0] == "assign" and not _reads(s[2], s[1]):
            plain.add(s[1])
    ir.walk(prog.body, visit)
    return plain & prog._selfref


def payload_eq(kind, rp, ap):
    """Equality of a reference payload and a machine payload; '?' in the reference is a wildcard (T3)."""
    if kind == "hook":
        if rp[0] != ap[0]:
            return False
        rv, av = dict(rp[1]), dict(ap[1])
        if set(rv) != set(av):
            return False
        return all(rv[k] == "?" or rv[k] == av[k] for k in rv)
    if kind == "setx":
        return rp[0] == ap[0] and (rp[1] == "?" or rp[1] == ap[1])
    return rp == ap


import collections
RELAXED = collections.Counter()


def compare(prog, word, outcome, tl, fcodes):
    """Returns None or (kind, text). Strict events that were pending when a *handled* error struck (T3, marked by the interpreter) may be
    absent on the machine's side: the comparison is repeated with subsets of them left out (hooks / appends only; there are rarely
    more than two)."""
    first = _compare(prog, word, outcome, tl, fcodes)
    if first is None:
        return None
    opt = [i for i in sorted(getattr(outcome, "optional", ())) if i < len(outcome.events) and outcome.events[i][1] in ("hook", "append", "yield", "set")]
    if not opt or len(opt) > 6:
        return first
    import itertools
    for r in range(1, len(opt) + 1):
        for sub in itertools.combinations(opt, r):
            # only suffixes of a gap's pending list may be missing: dropping is by whole tail within each gap
            if _compare(prog, word, outcome, tl, fcodes, drop=frozenset(sub)) is None:
                RELAXED["t3_pending_at_handled_error"] += 1
                return None
    return first


def _compare(prog, word, outcome, tl, fcodes, drop=()):
    n = len(word)
    re_ = ri_strict_events(prog, outcome, drop)
    ae = am_strict_events(tl, prog._selfref - prog._mixed)
    re_ = [e for e in re_ if not (e[1] == "setx" and e[2][0] in prog._mixed)]
    m = min(len(re_), len(ae))
    for i in range(m):
        (g, rk, rp), (k, ak, ap) = re_[i], ae[i]
        if rk != ak or not payload_eq(rk, rp, ap):
            return ("event-differs", "strict event #%d: reading performs %r, machine performs %r" % (i, re_[i], ae[i]))
        if k not in (g - 1, g):
            return ("event-position", "strict event #%d %r: reading at offset %d, machine while dispatching byte %d" % (i, (rk, rp), g, k))
    if tl.terminal is not None and tl.terminal[1] == 1 and outcome.terminal and outcome.terminal[0] == "finish" and outcome.terminal[-1] == tl.terminal[0] \
            and all(g == tl.terminal[0] for g, _, _ in re_[m:]):
        # T3 with a `finish` among the pending actions: the reading executes finish (and what precedes it in the same gap) before
        # looking at byte g; a machine that scheduled those actions lazily on byte g's transitions reports the mismatch of byte g instead
        RELAXED["t3_finish_pending_at_error"] += 1
        return None
    if len(re_) > m:
        extra = re_[m:]
        if tl.terminal is not None and not (tl.terminal[1] == 1 and outcome.terminal and outcome.terminal[0] == "fail"):
            return ("event-missing", "machine terminated %r but the reading still performs %r" % (tl.terminal, extra[:3]))
        if any(g < n for g, _, _ in extra) and tl.terminal is None:
            return ("event-missing", "reading performs %r which the machine has not performed after %d bytes" % (extra[:3], n))
        if tl.terminal is not None and tl.terminal[1] == 1:
            # machine failed: events of the reading before its own failure must not be missing unless they sit in the failing gap (T3)
            fail_at = tl.terminal[0]
            if any(g < fail_at for g, _, _ in extra):
                return ("event-missing", "reading performs %r before the machine's failure at byte %d" % (extra[:3], fail_at))
    if len(ae) > m:
        extra = ae[m:]
        if not outcome.pending:
            return ("event-extra", "machine performs %r which the reading never performs" % (extra[:3],))
        return ("event-extra", "machine performs %r while the reading is still waiting for input after %d bytes" % (extra[:3], n))
    rt, at = outcome.terminal, tl.terminal
    if rt is not None and at is not None:
        if rt[0] == "fail":
            if at[1] == 1:
                if at[0] != rt[1]:
                    return ("fail-offset", "reading fails at byte %d, machine at byte %d" % (rt[1], at[0]))
            else:
                return ("terminal-differs", "reading fails at byte %d, machine returns code %d at byte %d" % (rt[1], at[1], at[0]))
        else:
            g = rt[-1]
            want = 2 if (rt[0] == "done" or rt[1] is None) else 3 + fcodes.index(rt[1])
            if at[1] != want:
                # T5: end of program reached by lookahead on byte g: fail at g is tolerated
                if rt[0] == "done" and at[1] == 1 and at[0] == g and outcome_lookahead_end(prog):
                    return None
                return ("terminal-differs", "reading ends with %r, machine returns code %d at byte %d" % (rt, at[1], at[0]))
            if at[0] not in (g - 1, g):
                return ("terminal-position", "reading ends %r after %d bytes, machine while dispatching byte %d" % (rt, g, at[0]))
            if not prog._mixed and outcome.final is not None and tl.final is not None:
                rf = {k: v for k, v in outcome.final.items()}
                if any(v != "?" and tl.final.get(k) != v for k, v in rf.items()) or set(rf) != set(tl.final):
                    return ("final-outputs", "outputs at the end: reading %r, machine %r" % (rf, tl.final))
        return None
    if rt is None and at is None:
        return None
    if at is None:
        # reading terminated, machine not yet: allowed only at the end of the input (lazy DONE / lazy failure need the next byte)
        g = rt[-1]
        if g >= n:
            return None
        return ("terminal-missing", "reading terminates %r but the machine is still running after %d bytes" % (rt, n))
    # machine terminated, reading pending
    if outcome.pending and at[1] == 1:
        return ("fail-early", "machine fails at byte %d while the reading is still waiting for input" % at[0])
    return ("terminal-extra", "machine returns code %d at byte %d, reading has not terminated (pending=%s)" % (at[1], at[0], outcome.pending))


def block_ends_nullable(body, nested=False):
    """Some nested block's last consuming statement can be skipped entirely (optional / nullable construct)."""
    found = False
    last_consuming = next((x for x in reversed(body) if not ir.is_action(x)), None)
    trailing_actions = bool(body) and ir.is_action(body[-1])
    if (nested or trailing_actions) and last_consuming is not None and last_consuming[0] != "loop" and ir.stmt_summary(last_consuming, []).nullable:
        return True
    for st_ in body:
        k = st_[0]
        subs = []
        if k == "loop":
            subs = [st_[2]]
        elif k == "optional":
            subs = [st_[1]]
        elif k == "case":
            subs = [x[2] for x in st_[2]]
        elif k == "try":
            subs = [st_[2], st_[3]]
        elif k == "foreach":
            subs = [st_[1]]
        elif k == "if":
            subs = [x[1] for x in st_[1]] + ([st_[2]] if st_[2] else [])
        for sb in subs:
            if sb and block_ends_nullable(sb, True):
                found = True
    return found


def interfering_pair(body):
    """The shapes in which the eager scheduling of a plain (not timing-strict) delete / assignment that follows an open-ended
    statement is observable: (a) the open-ended statement appends to the same string, (b) a foreach's per-byte hook is running over
    the open-ended statement (it sees every output after every byte)."""
    found = []

    def has_hook(actions):
        return any(a[0] == "hook" for a in actions)

    def scan(b, observed):
        prev = None
        for st_ in b:
            if prev is not None and st_[0] in ("delete", "assignstr", "assign"):
                open_ended = bool(ir.stmt_summary(prev, []).tail)
                if prev[0] == "append" and open_ended and st_[0] in ("delete", "assignstr") and st_[1] == prev[1]:
                    found.append("a")
                elif open_ended and (observed or (prev[0] == "foreach" and has_hook(prev[2]))):
                    found.append("b")
            if not ir.is_action(st_):
                prev = st_
            elif st_[0] not in ("delete", "assignstr", "assign"):
                prev = None
            k = st_[0]
            subs = []
            if k == "loop":
                subs = [(st_[2], observed)]
            elif k == "optional":
                subs = [(st_[1], observed)]
            elif k == "case":
                subs = [(x[2], observed) for x in st_[2]]
            elif k == "try":
                subs = [(st_[2], observed), (st_[3], observed)]
            elif k == "foreach":
                subs = [(st_[1], observed or has_hook(st_[2]))]
            elif k == "if":
                subs = [(x[1], observed) for x in st_[1]] + ([(st_[2], observed)] if st_[2] else [])
            for sb, ob in subs:
                scan(sb, ob)
    scan(body, False)
    return bool(found)


def loop_starts_with_break(body):
    """Some loop body begins with actions that contain a break (plain or inside an action-only if): when nothing before the loop can host
    them eagerly they are scheduled on the transitions of the body's first match, and the break then swallows that match's byte."""
    def has_break(st_):
        if st_[0] == "break":
            return True
        if st_[0] == "if":
            return any(has_break(x) for br in st_[1] for x in br[1]) or any(has_break(x) for x in (st_[2] or ()))
        return False

    def scan(b):
        for st_ in b:
            k = st_[0]
            subs = []
            if k == "loop":
                lead = []
                for x in st_[2]:
                    if not ir.is_action(x):
                        break
                    lead.append(x)
                if any(has_break(x) for x in lead):
                    return True
                subs = [st_[2]]
            elif k == "optional":
                subs = [st_[1]]
            elif k == "case":
                subs = [x[2] for x in st_[2]]
            elif k == "try":
                subs = [st_[2], st_[3]]
            elif k == "foreach":
                subs = [st_[1]]
            elif k == "if":
                subs = [x[1] for x in st_[1]] + ([st_[2]] if st_[2] else [])
            if any(scan(sb) for sb in subs if sb):
                return True
        return False
    return scan(body)


def loop_ends_with_yield_if(body):
    """Some loop body ends in an if whose branches hold only actions, a yield among them: the way back to the top of the loop is lost
    (open finding; a match behind the if inside the loop body, or the same if outside a loop, is fine)."""
    def has_yield(st_):
        if st_[0] == "yield":
            return True
        if st_[0] == "if":
            return any(has_yield(x) for br in st_[1] for x in br[1]) or any(has_yield(x) for x in (st_[2] or ()))
        return False

    def scan(b):
        for st_ in b:
            k = st_[0]
            subs = []
            if k == "loop":
                tail = []
                for x in reversed(st_[2]):
                    if not ir.is_action(x):
                        break
                    tail.append(x)
                if any(x[0] == "if" and has_yield(x) for x in tail):
                    return True
                subs = [st_[2]]
            elif k == "optional":
                subs = [st_[1]]
            elif k == "case":
                subs = [x[2] for x in st_[2]]
            elif k == "try":
                subs = [st_[2], st_[3]]
            elif k == "foreach":
                subs = [st_[1]]
            elif k == "if":
                subs = [x[1] for x in st_[1]] + ([st_[2]] if st_[2] else [])
            if any(scan(sb) for sb in subs if sb):
                return True
        return False
    return scan(body)


def outcome_lookahead_end(prog):
    """Can the program end by lookahead (its last consuming statement is open-ended / nullable)?"""
    s, _ = ir.analyse(prog.body)
    return bool(s.tail) or s.nullable


def check_program(shard, prog, argv, max_len, choices_list=(), do_c=True):
    src = prog.source()
    replay = {"source": src, "argv": argv}
    shard.event("programs_generated")
    out = front.compile_src(src, argv)
    if not out.accepted:
        shard.event("rejected")
        return
    comp = out.compiled
    shard.event("programs")
    prog._selfref = selfref_vars(prog)
    prog._mixed = mixed_selfref(prog)
    m = am_mod.Machine(comp)
    alphabet = walk.representatives(ir.byte_alphabet(prog), cap=5)
    if 0x7a not in alphabet:
        alphabet.append(0x7a)
    stats_local = {"action_events": 0, "error_transfers": 0}

    def visit(word, tls, cfgs):
        shard.event("evaluations")
        tl = tls[0]
        try:
            outcome = ri.run(prog, word)
        except Undefined:
            shard.event("ri_undefined")
            return
        except ri.Ambiguous:
            shard.event("ri_ambiguous")
            return
        except ri.Unsupported:
            shard.event("ri_unsupported")
            return
        d = compare(prog, word, outcome, tl, prog.fcodes)
        if d and any(k_ == "overflow" and p_[-1] == "char" for _, k_, p_ in tl.events):
            raise Failure("c01:char-append-overflow-redispatches-consumed-byte", "input %s: %s\nreading: events=%r terminal=%r\nmachine: events=%r terminal=%r\n%s"
                          % (word.hex(), d[1], outcome.events[-6:], outcome.terminal, tl.events[-6:], tl.terminal, src), dict(replay, input=word.hex()))
        if d and block_ends_nullable(prog.body):
            raise Failure("c01:actions-after-block-ending-in-optional-lost-when-skipped", "input %s: %s\nreading: events=%r terminal=%r\nmachine: events=%r terminal=%r\n%s"
                          % (word.hex(), d[1], outcome.events[-6:], outcome.terminal, tl.events[-6:], tl.terminal, src), dict(replay, input=word.hex()))
        if d and loop_starts_with_break(prog.body):
            raise Failure("c01:lazily-scheduled-break-swallows-the-byte-it-was-scheduled-on", "input %s: %s\nreading: events=%r terminal=%r\nmachine: events=%r terminal=%r\n%s"
                          % (word.hex(), d[1], outcome.events[-6:], outcome.terminal, tl.events[-6:], tl.terminal, src), dict(replay, input=word.hex()))
        if d and loop_ends_with_yield_if(prog.body):
            raise Failure("c01:loop-body-ending-in-action-only-if-with-yield-is-cut-off", "input %s: %s\nreading: events=%r terminal=%r\nmachine: events=%r terminal=%r\n%s"
                          % (word.hex(), d[1], outcome.events[-6:], outcome.terminal, tl.events[-6:], tl.terminal, src), dict(replay, input=word.hex()))
        if d and interfering_pair(prog.body):
            raise Failure("c01:eager-nonstrict-action-interferes-with-open-append", "input %s: %s\nreading: events=%r terminal=%r\nmachine: events=%r terminal=%r\n%s"
                          % (word.hex(), d[1], outcome.events[-6:], outcome.terminal, tl.events[-6:], tl.terminal, src), dict(replay, input=word.hex()))
        if d:
            raise Failure("c01:" + d[0], "input %s (%r): %s\nreading: events=%r terminal=%r pending=%s\nmachine: events=%r terminal=%r\n%s"
                          % (word.hex(), word, d[1], outcome.events[-6:], outcome.terminal, outcome.pending, tl.events[-6:], tl.terminal, src),
                          dict(replay, input=word.hex()))
        if outcome.events:
            stats_local["action_events"] += 1
        if outcome.terminal and outcome.terminal[0] == "fail":
            stats_local["error_transfers"] += 1

    try:
        stats = walk.joint_walk([m], alphabet, max_len, visit, node_cap=3000)
    except Undefined:
        shard.event("start_undefined")
        return
    for k_, v_ in RELAXED.items():
        shard.event("relaxed:" + k_, v_)
    RELAXED.clear()
    kinds = ir.kinds(prog.body)
    blocks = sum(1 for k in kinds if k in ("loop", "case", "optional", "try", "foreach", "if"))
    if (blocks >= 2 or "try" in kinds) and stats_local["action_events"] and stats_local["error_transfers"]:
        shard.nontriv(src)
        shard.event("class:blocks_actions_errors")
    for k in kinds:
        shard.event("stmt:" + k)
    if len(shard.samples) < 2 and blocks >= 2:
        shard.sample({"source": src, "argv": argv, "alphabet": alphabet, "walk_nodes": stats["nodes"]})
    # ---- long inputs through the C binary against the reference interpreter
    if do_c and choices_list:
        datas = [inputs.guided_input(m, ch, max_len=40) for ch in choices_list]
        datas = [d for d in datas if d]
        if not datas:
            return
        try:
            binary = crun.Binary(front.compile_src(src, argv + ["-findirect-start-ptr"]).compiled)
        except crun.BuildError as e:
            raise Failure("c01:c-build-error", str(e)[-800:], replay)
        try:
            from checks.c05 import c_timeline_bytes
            sc = crun.Script()
            for d in datas:
                sc.b += trace.script_for([d[i:i + 1] for i in range(len(d))], move=False).b
            rc, outp, err = binary.run_raw(sc)
            if rc != 0:
                if rc == 3:
                    shard.event("c_hang_(C04)")
                    return
                raise Failure("c01:c-crash", "rc=%s %s" % (rc, err[-500:]), replay)
            for d, run in zip(datas, crun.parse_log(outp)):
                tl = c_timeline_bytes(trace.c_calls(run), binary.info)
                tl.events = [(k, kind, ((p[0], p[1]) if kind == "hook" else p)) for k, kind, p in tl.events]
                try:
                    outcome = ri.run(prog, d)
                except (Undefined, ri.Ambiguous, ri.Unsupported):
                    continue
                shard.event("evaluations")
                shard.event("c_runs")
                # the C trace only shows hooks / yields / terminal: compare those
                saved = (prog._selfref, prog._mixed)
                re_all = ri_strict_events(prog, outcome)
                outcome.events = [(g, k, p) for g, k, p in outcome.events if k in ("hook", "yield")]
                prog._selfref = set()
                dd = compare(prog, d, outcome, tl, prog.fcodes)
                prog._selfref, prog._mixed = saved
                if dd and dd[0] != "final-outputs":
                    # the same root causes as in the walk: classify by the shapes the open findings are known to need
                    known_key = None
                    if any(k_ == "overflow" and p_[-1] == "char" for _, k_, p_ in tl.events):
                        known_key = "c01:char-append-overflow-redispatches-consumed-byte"
                    elif block_ends_nullable(prog.body):
                        known_key = "c01:actions-after-block-ending-in-optional-lost-when-skipped"
                    elif loop_starts_with_break(prog.body):
                        known_key = "c01:lazily-scheduled-break-swallows-the-byte-it-was-scheduled-on"
                    elif interfering_pair(prog.body):
                        known_key = "c01:eager-nonstrict-action-interferes-with-open-append"
                    raise Failure(known_key or ("c01:c:" + dd[0]), "input %s through the C binary: %s\n%s" % (d.hex(), dd[1], src), dict(replay, input=d.hex()))
        finally:
            binary.close()


@st.composite
def case_strategy(draw):
    mode = draw(st.sampled_from(["plain", "plain", "plain", "yield"]))
    cfg = gen.GenConfig(max_depth=2, max_stmts=5, allow_yield=(mode == "yield"), n_hooks=(1, 2), n_strs=(0, 2), str_sizes=[1, 2, 3, 4],
                        kinds={"yield": 2 if mode == "yield" else 0, "hook": 5, "try": 4, "case": 4, "loop": 3, "optional": 3, "foreach": 2,
                               "if": 2, "ifact": 2, "append": 4, "assign": 3, "finish": 1, "wait": 1, "appendc": 0}, wide_bytes=0.02, allow_greedy=False, valid_bias=1.0)
    prog = draw(gen.program(cfg))
    choices = draw(st.lists(st.lists(st.integers(0, 4095), min_size=4, max_size=30), min_size=1, max_size=2))
    return prog, list(prog.argv), choices


def worker(job):
    seed, n, known, stop_at, max_len = job
    shard = Shard()

    def body(val):
        prog, argv, choices = val
        check_program(shard, prog, argv, max_len, choices)

    common.hyp_run(shard, body, case_strategy(), n, seed, known_keys=known, stop_at=stop_at)
    return shard


KNOWN_PROGRAMS = {
    "c01:loop-body-ending-in-action-only-if-with-yield-is-cut-off": ir.Program(
        [("int", "n0", True, None, 0)], [], [], ["Y0"], [],
        (("loop", None, (("match", ("lit", b"a", "str")), ("assign", "n0", ("bin", "+", ("var", "n0"), ("num", 1, "dec"))),
                         ("if", ((("bin", "==", ("var", "n0"), ("num", 1, "dec")), (("yield", "Y0"),)),), None))),), ["-O1", "-fyield-support"]),
    "c01:lazily-scheduled-break-swallows-the-byte-it-was-scheduled-on": ir.Program(
        [("int", "n0", True, None, 0)], ["h0"], [], [], [],
        (("optional", (("match", ("lit", b"a", "str")),)),
         ("loop", None, (("if", ((("bin", "==", ("var", "n0"), ("num", 0, "dec")), (("break", None),)),), None), ("match", ("lit", b"b", "str")))),
         ("match", ("lit", b"b", "str")), ("hook", "h0")), ["-O0"]),
    "c01:actions-after-block-ending-in-optional-lost-when-skipped": ir.Program(
        [], ["h0"], [], [], [],
        (("case", False, (((("lit", b"a", "str"),), None, (("optional", (("match", ("lit", b"a", "str")),)),)),)), ("hook", "h0"), ("match", ("lit", b"b", "str"))), ["-O1"]),
    "c01:eager-nonstrict-action-interferes-with-open-append": ir.Program(
        [("str", "s0", 1, False, None, False)], [], [], [], [],
        (("append", "s0", ("re", ("op", ("lit", 0x61), "+"), False)), ("assignstr", "s0", b""), ("match", ("lit", b";", "str"))), ["-O1"]),
    "c01:char-append-overflow-redispatches-consumed-byte": ir.Program(
        [("str", "s0", 1, False, b"x", False)], ["h0"], [], [], [],
        (("try", ("outofspace",), (("match", ("lit", b"ab", "str")), ("appendc", "s0", ("num", 65, "dec")), ("match", ("lit", b"c", "str"))),
          (("match", ("lit", b"b", "str")), ("hook", "h0"))),), ["-O1"]),
}


_ASTARB = ("re", ("seq", (("op", ("lit", 0x61), "*"), ("lit", 0x62))), False)
_SEMI = ("match", ("lit", b";", "str"))
_ABLOOP = ("loop", "l0", (("case", False, (((("lit", b"a", "str"),), None, ()), ((("lit", b"b", "str"),), None, (("break", "l0"),)))),))
# programs that once failed and were repaired in /repo (see known_findings.json, status fixed): always re-run
_COUNT = ("assign", "n0", ("bin", "+", ("var", "n0"), ("num", 1, "dec")))
_CSLOOP = lambda lead: ("loop", None, lead + (("match", ("lit", b"a", "str")), ("case", False, (((("lit", b",", "str"),), None, ()), ((("lit", b";", "str"),), None, (("break", None),))))))  # noqa: E731
FIXED_PROGRAMS = {
    "optional-loop-start-actions": ir.Program([("int", "n0", True, None, 0)], ["h0"], [], [], [],
                                              (("match", ("lit", b"x", "str")), ("optional", (_CSLOOP((("hook", "h0"), _COUNT)),)), ("match", ("lit", b"z", "str")), ("hook", "h0")), ["-O1"]),
    "optional-loop-start-count-O3": ir.Program([("int", "n0", True, None, 0)], ["h0"], [], [], [],
                                               (("match", ("lit", b"x", "str")), ("optional", (_CSLOOP((_COUNT,)),)), ("match", ("lit", b"z", "str")), ("hook", "h0")), ["-O3"]),
    "optional-reentrant-regex": ir.Program([], ["h0"], [], [], [], (("optional", (("match", _ASTARB),)), _SEMI), ["-O0"]),
    "optional-reentrant-regex-append": ir.Program([("str", "s0", 1, False, b"", False)], [], [], [], [], (("optional", (("append", "s0", _ASTARB),)), _SEMI), ["-O0"]),
    "optional-reentrant-loop": ir.Program([], ["h0"], [], [], [], (("optional", (_ABLOOP,)), _SEMI), ["-O3"]),
    "loop-optional-reentrant-regex": ir.Program([], ["h0"], [], [], [], (("loop", None, (("optional", (("match", _ASTARB),)), _SEMI)),), ["-O1"]),
    "break-in-clause-skips-trailing-actions": ir.Program([], ["h0"], [], [], [], (("loop", None, (("case", False, (((("lit", b"x", "str"),), None, (("break", None),)), ((("lit", b"y", "str"),), None, ()))), ("hook", "h0"))), _SEMI), ["-O1"]),
    "two-pattern-clause-body-double-chained": ir.Program([("str", "s0", 1, False, b"", False)], ["h0"], [], [], [], (("try", None, (("case", False, (((("lit", b"aa", "str"),), None, ()), ((("lit", b"b", "str"), ("lit", b"ab", "str")), None, (("append", "s0", ("re", ("lit", 0x61), True)),)))),), ()), ("hook", "h0")), ["-O0"]),
    "optional-start-hook-reentrant": ir.Program([], ["h0"], [], [], [], (("match", ("lit", b"x", "str")), ("optional", (("hook", "h0"), ("match", _ASTARB))), _SEMI), ["-O1"]),
}


def main(ctx):
    quick = ctx.tier == "quick"
    known = tuple(ctx.open_keys)
    for name, prog in sorted(FIXED_PROGRAMS.items()):
        sh = Shard()
        try:
            check_program(sh, prog, list(prog.argv), 5, do_c=False)
        except Failure as f:
            sh.failures.append({"sig": f.sig, "what": "regression program %s: %s" % (name, f.what), "replay": f.replay})
        sh.event("regression_cases")
        ctx.total.merge(sh)
    for key, entry in sorted(ctx.open_keys.items()):
        sh = Shard()
        prog = KNOWN_PROGRAMS.get(key)
        if prog is None:
            continue
        try:
            check_program(sh, prog, list(prog.argv), 4, do_c=False)
            print("STALE-KNOWN-FINDING: property=C01 %s no longer reproduces" % key)
        except Failure as f:
            if f.sig == key:
                sh.known_hits[key] += 1
            else:
                sh.failures.append({"sig": f.sig, "what": f.what, "replay": f.replay})
        ctx.total.merge(sh)
    n = 150 if quick else 2500
    stop_at = time.time() + (80 if quick else 900)
    ctx.pmap(worker, [(ctx.seed * 100003 + i, n, known, stop_at, 5 if quick else 7) for i in range(common.NPROC)])
    ctx.rule = ("case = generated program over all statement kinds (depth <= 2); every input up to length 5 (quick) / 7 (thorough) over <= 6 "
                "byte-class representatives is run through the abstract machine and the reference interpreter and compared (evaluations = inputs), "
                "plus guided inputs up to 40 bytes through the gcc-built C parser. Non-trivial: program with >= 2 block statements or a handler whose "
                "walk reached action events and an error transfer; distinct by source.")
    ctx.assumptions = ["vlib/ri.py is my reading of parser.md; constructs the reference leaves open ($last outside its guaranteed contexts, macros - see C13, "
                       "foreach actions reading what the body appends) are not generated",
                       "non-strict assignments are compared through the outputs visible at hooks and at the end, not event by event"]
    ctx.required_classes = ["programs", "class:blocks_actions_errors", "c_runs"]


def replay(ctx, data):
    rp = data["replay"]
    print(rp["source"])
    print(rp["argv"], rp.get("input"))
    return 0
