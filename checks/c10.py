"""
C10 - result codes and the start pointer follow the documented protocol.

History invariants checked on C traces (indirect start pointer), one byte per call and random chunkings, with
extra calls after a terminal result:
  P1  OK            => *start == chunk end
  P2  FAIL          => *start stays on the offending byte (the byte being dispatched), every later feed/end is FAIL
                       and leaves *start at the start of its chunk
  P3  DONE/FINISH_* => *start stays on the last byte read (byte-per-call: the byte fed by that call)
  P4  YIELD_*       => *start is within the chunk, re-invocation resumes there; a chunk never yields for ever; the
                       bytes handed to the machine across re-invocations are exactly the input (checked by
                       cross-chunking agreement and by the abstract machine's own consumed-byte count)
  P5  strict-done   => same trace as the non-strict build except that a DONE may be replaced by OK, in which case the
                       very next call returns DONE without consuming (and end() returns DONE)
  P6  terminal results (DONE / FINISH) agree in code and position with the abstract machine's notion of
      "the program finished" (C == AM), and FAIL is sticky in AM as well.
"""
import glob
import json
import os
import time

from hypothesis import strategies as st

from vlib import am as am_mod
from vlib import common, crun, front, gen, inputs, options, trace
from vlib.common import Failure, Shard

OK, FAIL, DONE = 0, 1, 2


def check_history(calls, chunks, info, label):
    """calls: list of trace.Call (start first); chunks: list of bytes fed (one feed command per chunk)."""
    problems = []
    base = 0
    ci = 0
    failed = False
    done = False
    yields_in_chunk = 0
    for c in calls[1:]:
        if c.kind in ("HANG", "YIELDSPIN", "GUARD-CORRUPT"):
            problems.append(("hang", "%s: %s" % (label, c.kind)))
            break
        if c.kind == "end":
            if failed and c.code != FAIL:
                problems.append(("fail-not-sticky", "%s: end() returned %s after FAIL" % (label, info.code_name(c.code))))
            continue
        if c.kind != "feed":
            continue
        chunk = chunks[ci]
        lo, hi = base, base + len(chunk)
        if c.off is None or not (lo <= c.off <= hi):
            problems.append(("pointer-outside-chunk", "%s: call %d left *start at %s, chunk is [%d,%d]" % (label, ci, c.off, lo, hi)))
        if failed:
            if c.code != FAIL:
                problems.append(("fail-not-sticky", "%s: feed returned %s after FAIL" % (label, info.code_name(c.code))))
            elif c.off != lo:
                problems.append(("fail-pointer-moved", "%s: FAIL after FAIL moved *start to %s (chunk starts at %d)" % (label, c.off, lo)))
        if info.is_yield(c.code):
            yields_in_chunk += 1
            continue
        yields_in_chunk = 0
        if c.code == OK and c.off != hi and not failed and not done:
            problems.append(("ok-before-chunk-end", "%s: OK with *start=%s, chunk end %d" % (label, c.off, hi)))
        if c.code == FAIL:
            failed = True
        if info.is_terminal(c.code) and c.code != FAIL:
            done = True
        base = hi
        ci += 1
    return problems


def check_program(shard, prog, argv, choices_list, cut_sets=(), trailing=b"ab"):
    src = prog if isinstance(prog, str) else prog.source()
    argv = list(argv)
    if "-findirect-start-ptr" not in argv:
        argv.append("-findirect-start-ptr")
    argv = [a for a in argv if a != "-fstrict-done-token-generation"]
    replay = {"source": src, "argv": argv}
    shard.event("programs_generated")
    out = front.compile_src(src, argv)
    if not out.accepted:
        shard.event("rejected")
        return
    comp = out.compiled
    out_s = front.compile_src(src, argv + ["-fstrict-done-token-generation"])
    if not out_s.accepted:
        raise Failure("c10:strict-verdict", "accepted without strict-done but not with it: %r" % out_s, replay)
    comp_s = out_s.compiled
    m = am_mod.Machine(comp)
    datas = []
    for ch in choices_list:
        d = ch if isinstance(ch, (bytes, bytearray)) else inputs.guided_input(m, ch, max_len=14)
        if not d:
            continue
        d = bytes(d) + trailing          # calls after a terminal result
        try:
            want, _ = trace.am_calls(m, [d[j:j + 1] for j in range(len(d))], call_end=comp.do("EOF_SUPPORT"), indirect=True)
        except am_mod.Undefined:
            shard.event("input_undefined_skipped")
            continue
        except am_mod.Spin:
            shard.event("input_spin_skipped")
            continue
        datas.append((d, want))
    if not datas:
        return
    shard.event("programs")
    try:
        b_n = crun.Binary(comp, tag="n")
        b_s = crun.Binary(comp_s, tag="s")
    except crun.BuildError as e:
        raise Failure("c10:c-build-error", "generated C does not build:\n" + str(e)[-1200:], replay)
    info = b_n.info
    try:
        for d, want in datas:
            n = len(d)
            scheds = [tuple(range(1, n))]
            for cs in cut_sets:
                cuts = tuple(sorted(set(x % n for x in cs if 0 < x % n < n)))
                if cuts not in scheds:
                    scheds.append(cuts)
            from checks.c02 import chunks_of
            sc = crun.Script()
            chunk_lists = []
            for cuts in scheds:
                chunks = chunks_of(d, cuts)
                chunk_lists.append(chunks)
                sc.b += trace.script_for(chunks, call_end=info.eof, call_free=info.dynmem, move=True).b
            res = []
            for b in (b_n, b_s):
                rc, outp, err = b.run_raw(sc)
                if rc != 0:
                    kind = "hang" if rc == 3 else "crash"
                    raise Failure("c10:c-" + kind, "driver exit %s (strict=%s)\n%s\n%s" % (rc, b is b_s, outp[-300:], err[-600:]),
                                  dict(replay, input=d.hex()))
                res.append([trace.c_calls(r) for r in crun.parse_log(outp)])
            runs_n, runs_s = res
            for cuts, chunks, rn, rs in zip(scheds, chunk_lists, runs_n, runs_s):
                shard.event("evaluations")
                # P6 under this chunking too: codes and pointer positions are those of the abstract machine fed the same chunks
                try:
                    want_k, _ = trace.am_calls(m, chunks, call_end=info.eof, indirect=True)
                except (am_mod.Undefined, am_mod.Spin):
                    want_k = None
                if want_k is not None:
                    diff = trace.first_diff(want_k, [c for c in rn if c.kind != "free"], with_state=True, with_off=True)
                    if diff:
                        raise Failure("c10:c-vs-am", "input=%s chunks=%r\n%s" % (d.hex(), [c.hex() for c in chunks], diff[1]),
                                      dict(replay, input=d.hex(), cuts=list(cuts)))
                for label, r in (("non-strict", rn), ("strict-done", rs)):
                    probs = check_history(r, chunks, info, label)
                    if probs:
                        raise Failure("c10:" + probs[0][0] + (":strict" if label == "strict-done" else ""),
                                      "input=%s chunks=%r\n%s\ntrace=%r" % (d.hex(), [c.hex() for c in chunks], probs, r),
                                      dict(replay, input=d.hex(), cuts=list(cuts)))
            # an end() call in the middle of the input, the caller carrying on afterwards (once FAIL - also from end() - always FAIL)
            if info.eof:
                chunks1 = [d[j:j + 1] for j in range(n)]
                for k in sorted(set([1, n // 2, n - 1])):
                    if not (0 < k < n):
                        continue
                    try:
                        want2, _ = trace.am_calls(m, chunks1, call_end=True, indirect=True, end_after=k)
                    except (am_mod.Undefined, am_mod.Spin):
                        continue
                    sc2 = trace.script_for(chunks1, call_end=True, call_free=info.dynmem, move=True, end_after=k)
                    rc, outp, err = b_n.run_raw(sc2)
                    if rc != 0:
                        raise Failure("c10:c-" + ("hang" if rc == 3 else "crash"), "driver exit %s with end() after %d bytes\n%s\n%s" % (rc, k, outp[-300:], err[-600:]),
                                      dict(replay, input=d.hex(), end_after=k))
                    got2 = [c for c in trace.c_calls(crun.parse_log(outp)[0]) if c.kind != "free"]
                    shard.event("evaluations")
                    shard.event("mid_end_runs")
                    codes = [c.code for c in got2 if c.kind in ("feed", "end")]
                    if FAIL in codes and any(c != FAIL for c in codes[codes.index(FAIL):]):
                        raise Failure("c10:not-fail-after-fail", "input=%s, end() after %d bytes: result codes %r" % (d.hex(), k, codes), dict(replay, input=d.hex(), end_after=k))
                    diff = trace.first_diff(want2, got2, with_state=True, with_off=True)
                    if diff:
                        raise Failure("c10:c-vs-am", "input=%s, end() after %d bytes\n%s" % (d.hex(), k, diff[1]), dict(replay, input=d.hex(), end_after=k))
            # byte-per-call specifics (schedule 0)
            rn, rs = runs_n[0], runs_s[0]
            feeds = [c for c in rn if c.kind == "feed"]
            i = 0
            for c in feeds:
                if info.is_yield(c.code):
                    if c.off not in (i, i + 1):
                        raise Failure("c10:yield-pointer", "input=%s: yield at byte %d left *start at %s" % (d.hex(), i, c.off), dict(replay, input=d.hex()))
                    continue
                if c.code == FAIL and c.off != i:
                    raise Failure("c10:fail-pointer", "input=%s: FAIL while dispatching byte %d left *start at %s" % (d.hex(), i, c.off),
                                  dict(replay, input=d.hex()))
                if info.is_terminal(c.code) and c.code != FAIL:
                    if c.off != i:
                        raise Failure("c10:done-pointer", "input=%s: %s while dispatching byte %d left *start at %s (should stay on the last byte read)"
                                      % (d.hex(), info.code_name(c.code), i, c.off), dict(replay, input=d.hex()))
                    break
                if c.code == FAIL:
                    break
                i += 1
            # P6: agreement with AM on codes and offsets (exact, C == AM)
            diff = trace.first_diff(want, [c for c in rn if c.kind != 'free'], with_state=True, with_off=True)
            if diff:
                raise Failure("c10:c-vs-am", "input=%s\n%s" % (d.hex(), diff[1]), dict(replay, input=d.hex()))
            # P5: strict vs non-strict
            problem = compare_strict(rn, rs, info)
            if problem:
                raise Failure("c10:strict-done:" + problem[0], "input=%s\n%s\nnon-strict=%r\nstrict=%r" % (d.hex(), problem[1], rn, rs),
                              dict(replay, input=d.hex()))
            term = [c for c in feeds if info.is_terminal(c.code)]
            if term and len([c for c in feeds]) > feeds.index(term[0]) + 1:
                shard.nontriv(src + d.hex())
                shard.event("class:calls_after_terminal")
            if sum(1 for c in feeds if info.is_yield(c.code)) >= 2:
                shard.event("class:two_yields")
            if len(shard.samples) < 2 and term:
                shard.sample({"source": src, "argv": argv, "input": d.hex(), "codes": [info.code_name(c.code) for c in feeds]})
    finally:
        b_n.close()
        b_s.close()


def compare_strict(rn, rs, info):
    """
    rn/rs: byte-per-call traces of the non-strict and strict-done binaries.  The strict build may only postpone a DONE:
    the sequences of non-OK results (yield codes, terminal result) with the hooks called and the outputs seen must be
    identical; OK results are bookkeeping (a postponed DONE shows up as an extra OK; a yield on the program's last transition
    does not advance *start in the non-strict build because DONE follows at once - pointer rules are checked per trace by
    check_history).  After the non-strict DONE nothing is asserted.
    """
    def digest(calls):
        out = []
        hooks = []
        for c in calls:
            if c.kind not in ("feed", "end"):
                continue
            hooks.extend(c.hooks)
            if c.code == OK:
                continue
            out.append((c.code, tuple(hooks), tuple(sorted(c.vars.items()))))
            hooks = []
            if info.is_terminal(c.code):
                break
        return out, hooks
    dn, pend_n = digest(rn)
    ds, pend_s = digest(rs)
    k = min(len(dn), len(ds))
    for i in range(k):
        if dn[i] != ds[i]:
            return ("differs", "result #%d: non-strict %r vs strict %r" % (i, dn[i], ds[i]))
    if len(dn) > len(ds):
        extra = dn[len(ds):]
        # allowed only if the missing result is the final DONE and the strict trace simply ran out of calls
        if len(extra) == 1 and extra[0][0] == DONE:
            return None
        return ("differs", "strict build lacks %r" % (extra[:2],))
    if len(ds) > len(dn):
        return ("differs", "strict build has extra results %r" % (ds[len(dn):][:2],))
    return None


@st.composite
def case_strategy(draw):
    mode = draw(st.sampled_from(["plain", "plain", "yield", "yield", "eof", "lexer", "yield-tail", "break-loop", "yield-overflow"]))
    if mode == "yield-overflow":
        # an append that may overflow and a yield on the same transition: pointer and codes when the out-of-space handler takes over
        prog, datas = draw(gen.yield_overflow_program())
        cuts = draw(st.lists(st.lists(st.integers(1, 12), min_size=1, max_size=4), min_size=1, max_size=3))
        k = draw(st.integers(0, len(datas) - 6))
        return prog, list(prog.argv) + draw(options.repr_options(indirect=True)), datas[k:k + 6], cuts
    if mode == "break-loop":
        # a loop left by a break (seven positions) with more input in the same chunk: codes and pointer under every chunking
        prog, datas = draw(gen.break_loop_program())
        cuts = draw(st.lists(st.lists(st.integers(1, 40), min_size=1, max_size=5), min_size=1, max_size=3))
        return prog, list(prog.argv) + draw(options.repr_options(indirect=True)), datas[:5], cuts
    if mode == "yield-tail":
        from checks.c02 import yield_tail_program
        prog = draw(yield_tail_program())
        datas = [bytes(draw(st.lists(st.sampled_from(list(b"abxcdqef")), min_size=2, max_size=6))) for _ in range(3)]
        cuts = draw(st.lists(st.lists(st.integers(1, 40), min_size=1, max_size=5), min_size=1, max_size=3))
        return prog, list(prog.argv), datas, cuts
    if mode == "lexer":
        prog = draw(lexer_program())
        argv = list(prog.argv)
    else:
        cfg = gen.GenConfig(max_depth=2, max_stmts=5, allow_yield=(mode == "yield"), allow_end=(mode == "eof"),
                            kinds={"yield": 3 if mode == "yield" else 0, "finish": 2, "try": 3, "match": 8}, wide_bytes=0.05)
        prog = draw(gen.program(cfg))
        argv = list(prog.argv) + draw(options.repr_options(indirect=True))
    choices = draw(st.lists(st.lists(st.integers(0, 4095), min_size=2, max_size=14), min_size=1, max_size=3))
    cuts = draw(st.lists(st.lists(st.integers(1, 40), min_size=1, max_size=5), min_size=1, max_size=4))
    return prog, argv, choices, cuts


@st.composite
def lexer_program(draw):
    """loop { greedy case { tokens -> yield } } style programs (tutorial lexer shape)."""
    from vlib import ir
    toks = []
    pool = [("re", ("op", ("cls", "s"), "+"), False), ("lit", b"(", "str"), ("lit", b")", "str"),
            ("re", ("op", ("cls", "d"), "+"), False), ("re", ("op", ("set", (("r", 0x61, 0x7a),), False), "+"), False),
            ("lit", b"if", "str"), ("lit", b"in", "str"), ("lit", b"=", "str"), ("lit", b"==", "str")]
    k = draw(st.integers(2, 6))
    idxs = draw(st.permutations(range(len(pool))))[:k]
    ycodes = ["T%d" % i for i in range(k)]
    clauses = []
    for n, i in enumerate(idxs):
        p = pool[i]
        prio = 1 if p[0] == "lit" and p[1] in (b"if", b"in") else None
        clauses.append(((p,), prio, (("yield", ycodes[n]),)))
    body = (("loop", None, (("case", True, tuple(clauses)),)),)
    return ir.Program([], [], [], ycodes, [], body, [draw(st.sampled_from(gen.OPT_LEVELS)), "-fyield-support"])


def worker(job):
    seed, n, known, stop_at = job
    shard = Shard()

    def body(val):
        prog, argv, choices, cuts = val
        check_program(shard, prog, argv, choices, cuts)

    common.hyp_run(shard, body, case_strategy(), n, seed, known_keys=known, stop_at=stop_at)
    return shard


def regress_worker(job):
    path, known = job
    shard = Shard()
    with open(path) as fh:
        d = json.load(fh)
    try:
        check_program(shard, d["source"], d["argv"], [bytes.fromhex(x) for x in d["inputs"]], d.get("cuts", [[2], [3, 5]]), trailing=b"")
    except Failure as f:
        if f.sig in known:
            shard.known_hits[f.sig] += 1
        else:
            shard.failures.append({"sig": f.sig, "what": "regression case %s: %s" % (path, f.what), "replay": f.replay})
    shard.event("regression_cases")
    return shard


def main(ctx):
    quick = ctx.tier == "quick"
    known = tuple(ctx.open_keys)
    reg = sorted(glob.glob(os.path.join(common.VERIF_DIR, "regress", "C10", "*.json")))
    ctx.pmap(regress_worker, [(p, known) for p in reg])
    n = 60 if quick else 1000
    stop_at = time.time() + (70 if quick else 900)
    ctx.pmap(worker, [(ctx.seed * 100003 + i, n, known, stop_at) for i in range(common.NPROC)])
    ctx.rule = ("case = (generated or lexer-style program, option set with indirect pointer, guided input + 2 trailing bytes so that calls follow "
                "a terminal result); each input is run byte-per-call and under Hypothesis-drawn chunkings on the normal and the strict-done build; "
                "evaluations = call histories checked against P1-P6. Non-trivial: history with a terminal result followed by >= 1 further call; "
                "distinct by (source, input).")
    ctx.assumptions = ["'last byte read' for DONE in byte-per-call mode is the byte fed by the call that returns DONE",
                       "after DONE / FINISH nothing is asserted about later calls"]
    ctx.required_classes = ["programs", "class:calls_after_terminal", "class:two_yields"]


def replay(ctx, data):
    rp = data["replay"]
    print(rp["source"])
    print(rp["argv"], rp.get("input"), rp.get("cuts"))
    return 0
