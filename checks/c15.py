"""
C15 - literals denote exactly the bytes and values they spell.

Each generated *item* is (context, ground-truth bytes/value, spelling).  Up to 40 items are packed into one
parser (a case on a selector letter), built with gcc and observed through the C binary:
  match contexts : the clause must accept exactly the spelled byte string (DONE on its last byte) and FAIL at
                   the first differing byte; single-byte literals are fed all 256 byte values.
  store contexts : bytes + counter read back from the state struct (assignment, text default, binary default)
  value contexts : char constants and integer literals read back from a 64-bit output.
Part A is the exhaustive single-byte matrix (every byte 0..255 x spelling x context); part B is Hypothesis
generated multi-byte strings / numbers with per-byte spelling choices and hostile neighbours.
"""
import string

from hypothesis import strategies as st

from vlib import common, crun, front, spell
from vlib.common import Failure, Shard

SELECTORS = string.ascii_uppercase + string.ascii_lowercase
MAXITEMS = 40
LETTERS = set(string.ascii_letters.encode())


def swapcase(b):
    return b ^ 0x20 if b in LETTERS else b


class Item:
    def __init__(self, kind, truth, text, note=""):
        self.kind = kind        # match | casei | store | default | char | int | intdef | regex1 | set
        self.truth = truth      # bytes, int, or frozenset (for regex1/set: accepted single bytes)
        self.text = text        # source text of the literal
        self.note = note

    def describe(self):
        t = self.truth
        if isinstance(t, (bytes, bytearray)):
            t = bytes(t).hex()
        elif isinstance(t, frozenset):
            t = sorted(t)
        return {"kind": self.kind, "truth": t, "text": self.text, "note": self.note}


def build_program(items, unterminated=False):
    decls = ["out int{size 8} m = 0;", "out int{size 8} v = 0;"]
    clauses = []
    for i, it in enumerate(items):
        sel = SELECTORS[i]
        if it.kind in ("match", "casei", "regex1", "set"):
            clauses.append('    "%s" -> { %s; m = %d; }' % (sel, it.text, i + 1))
        elif it.kind == "store":
            n = len(it.truth)
            if unterminated:
                decls.append("out unterminated str[%d] t%d;" % (max(n, 1), i))
            else:
                decls.append("out str[%d] t%d;" % (n + 1, i))
            clauses.append('    "%s" -> { t%d = %s; m = %d; }' % (sel, i, it.text, i + 1))
        elif it.kind == "default":
            n = len(it.truth)
            if unterminated:
                decls.append("out unterminated str[%d] t%d = %s;" % (max(n, 1), i, it.text))
            else:
                decls.append("out str[%d] t%d = %s;" % (n + 1, i, it.text))
        elif it.kind in ("char", "int"):
            clauses.append('    "%s" -> { v = %s; m = %d; }' % (sel, it.text, i + 1))
        elif it.kind == "intdef":
            decls.append("out int{size 8} d%d = %s;" % (i, it.text))
    if not clauses:
        clauses.append('    "A" -> { m = 1; }')
    return "\n".join(decls) + "\nparser {\n  case {\n" + "\n".join(clauses) + "\n  }\n}\n"


DONE, FAIL, OK = 2, 1, 0


def run_batch(shard, items, argv, unterminated=False, exhaustive_single=True, mut_bytes=()):
    """Compile + build + run one batch; raises Failure on the first disagreement."""
    src = build_program(items, unterminated)
    replay = {"source": src, "argv": argv, "items": [it.describe() for it in items]}
    out = front.compile_src(src, argv)
    shard.event("programs")
    if not out.accepted:
        culprit = find_culprit(items, argv, unterminated, lambda o: not o.accepted)
        raise Failure("c15:not-accepted:%s:%s" % (out.stage, type(out.exc).__name__) + (":" + culprit.kind if culprit else ""),
                      "well-formed literal program not accepted: %r\nculprit=%r" % (out, culprit and culprit.describe()), replay)
    comp = out.compiled
    try:
        binary = crun.Binary(comp)
    except crun.BuildError as e:
        culprit = find_culprit(items, argv, unterminated, None)
        raise Failure("c15:c-build-error" + (":" + culprit.kind if culprit else ""),
                      "generated C does not build (culprit %r):\n%s" % (culprit and culprit.describe(), str(e)[-1500:]), replay)
    try:
        sc = crun.Script()
        plan = []   # (item index, input, expectation)
        for i, it in enumerate(items):
            sel = SELECTORS[i].encode()
            if it.kind in ("match", "casei"):
                B = bytes(it.truth)
                plan.append((i, sel + B, ("done", len(B), i + 1)))
                if it.kind == "casei":
                    # all-swapped and single swaps must be accepted too
                    sw = bytes(swapcase(b) for b in B)
                    if sw != B:
                        plan.append((i, sel + sw, ("done", len(B), i + 1)))
                    for j in range(len(B)):
                        if swapcase(B[j]) != B[j]:
                            plan.append((i, sel + B[:j] + bytes([swapcase(B[j])]) + B[j + 1:], ("done", len(B), i + 1)))
                for j in range(len(B)):
                    cands = set([B[j] ^ 0x20, (B[j] + 1) & 255, (B[j] - 1) & 255, B[j] ^ 0x80, 0, 255]) | set(mut_bytes)
                    if len(B) == 1 and exhaustive_single:
                        cands = set(range(256))
                    for c in sorted(cands):
                        ok = (c == B[j]) or (it.kind == "casei" and c == swapcase(B[j]))
                        if ok:
                            continue
                        plan.append((i, sel + B[:j] + bytes([c]) + B[j + 1:] + b"zz", ("fail", 1 + j, None)))
                # truncated input must not be DONE
                if len(B) > 1:
                    plan.append((i, sel + B[:-1], ("ok", None, None)))
            elif it.kind in ("regex1", "set"):
                for c in range(256):
                    if c in it.truth:
                        plan.append((i, sel + bytes([c]), ("done", 1, i + 1)))
                    else:
                        plan.append((i, sel + bytes([c]) + b"z", ("fail", 1, None)))
            elif it.kind == "store":
                plan.append((i, sel, ("store", bytes(it.truth), i + 1)))
            elif it.kind in ("char", "int"):
                plan.append((i, sel, ("value", it.truth, i + 1)))
        for (i, data, exp) in plan:
            sc.start(move=False, snap=False).feed(data).stop()
        # defaults: one run that only starts
        sc.start(move=False, snap=False).stop()
        runs = binary.run(sc)
    except crun.CrashError as e:
        raise Failure("c15:c-crash", "driver crashed: %s" % e, replay)
    finally:
        binary.close()
    if len(runs) != len(plan) + 1:
        raise common.HarnessError("run count mismatch %d vs %d" % (len(runs), len(plan) + 1))
    for (i, data, exp), run in zip(plan, runs):
        it = items[i]
        shard.event("evaluations")
        rets = [e for e in run if e.kind == "R" and e.name == "feed"]
        last = rets[-1]
        what = None
        if exp[0] == "done":
            if last.code != DONE or last.off != exp[1] or last.snap.vars["m"] != exp[2]:
                what = "expected DONE at offset %d with marker %d" % (exp[1], exp[2])
        elif exp[0] == "fail":
            if last.code != FAIL or last.off != exp[1]:
                what = "expected FAIL at offset %d" % exp[1]
        elif exp[0] == "ok":
            if last.code != OK:
                what = "expected OK (incomplete literal)"
        elif exp[0] == "store":
            got = last.snap.vars["t%d" % i]
            want = exp[1]
            if last.code != DONE or got[0] != len(want) or got[1] != want or (not unterminated and got[2] != "t00"):
                what = "expected stored bytes %s len %d (NUL-terminated: %s)" % (want.hex(), len(want), not unterminated)
        elif exp[0] == "value":
            if last.code != DONE or last.snap.vars["v"] != exp[1]:
                what = "expected value %d" % exp[1]
        if what:
            raise Failure("c15:%s:%s" % (it.kind, exp[0]) + sig_detail(it, exp, last),
                          "%s\nitem=%r\ninput=%s\nobserved=%r" % (what, it.describe(), data.hex(), last),
                          dict(replay, item=it.describe(), input=data.hex()))
    start = runs[-1][0]
    for i, it in enumerate(items):
        if it.kind == "default":
            shard.event("evaluations")
            got = start.snap.vars["t%d" % i]
            want = bytes(it.truth)
            if got[0] != len(want) or got[1] != want or (not unterminated and got[2] != "t00"):
                raise Failure("c15:default" + sig_detail(it, ("store",), start),
                              "default value: expected %s, observed %r\nitem=%r" % (want.hex(), got, it.describe()),
                              dict(replay, item=it.describe()))
        elif it.kind == "intdef":
            shard.event("evaluations")
            if start.snap.vars["d%d" % i] != it.truth:
                raise Failure("c15:intdef", "default int: expected %d observed %d item=%r" % (it.truth, start.snap.vars["d%d" % i], it.describe()),
                              dict(replay, item=it.describe()))
    for it in items:
        shard.event("kind:" + it.kind)
        shard.nontriv(repr((it.kind, it.text)))


def sig_detail(it, exp, last):
    """Root-cause refinement of the signature: which region of the literal space."""
    t = it.truth
    if isinstance(t, (bytes, bytearray)):
        if any(b >= 0x80 for b in t):
            return ":high-byte"
        if it.kind in ("store", "default") and any((not (32 <= b < 127)) and i + 1 < len(t) and chr(t[i + 1]) in "0123456789abcdefABCDEF" for i, b in enumerate(t)):
            return ":hexescape-then-hexdigit"
        if 0 in t:
            return ":nul"
    if it.kind == "char" and it.text.startswith("'\\0") or it.text == "['\\0' + 0]":
        return ":backslash-zero"
    return ""


def find_culprit(items, argv, unterminated, pred):
    """Which single item makes the batch fail to compile/build? (for the signature only)"""
    for it in items:
        src = build_program([it], unterminated)
        out = front.compile_src(src, argv)
        if pred is not None:
            if pred(out):
                return it
            continue
        if not out.accepted:
            continue
        try:
            b = crun.Binary(out.compiled)
            b.close()
        except crun.BuildError:
            return it
    return None


# ------------------------------------------------------------------ part A: exhaustive single-byte matrix

def single_byte_items():
    items = []
    for b in range(256):
        bs = bytes([b])
        for up in (False, True):
            if up and ("%02x" % b) == ("%02X" % b):
                continue
            items.append(Item("match", bs, spell.string_lit(bs, "hex", up), "hex"))
        if spell.can_raw_string(b):
            items.append(Item("match", bs, spell.string_lit(bs, "raw"), "raw"))
        if b in spell.NAMED:
            items.append(Item("match", bs, spell.string_lit(bs, "named"), "named"))
        items.append(Item("casei", bs, spell.string_lit(bs, "hex", suffix="i"), "hex"))
        if spell.can_raw_string(b):
            items.append(Item("casei", bs, spell.string_lit(bs, "raw", suffix="i"), "raw"))
        items.append(Item("match", bs, spell.binary_lit(bs), "binary"))
        items.append(Item("match", bs, spell.binary_lit(bs, upper=True), "binary-upper"))
        items.append(Item("regex1", frozenset([b]), "b/%02x/" % b, "bregex"))
        items.append(Item("set", frozenset([b]), "b/[%02X]/" % b, "bregex-set"))
        rc = spell.regex_char(b)
        if rc is not None:
            items.append(Item("regex1", frozenset([b]), "/" + rc + "/", "regex"))
        sc = spell.regex_set_char(b)
        if sc is not None and b != ord("^"):
            items.append(Item("set", frozenset([b]), "/[" + sc + "]/", "regex-set"))
        items.append(Item("store", bs, spell.string_lit(bs, "hex"), "hex"))
        items.append(Item("store", bs + b"a", spell.string_lit(bs, "hex") [:-1] + 'a"', "hex+hexdigit"))
        if spell.can_raw_string(b):
            items.append(Item("store", bs, spell.string_lit(bs, "raw"), "raw"))
        if b in spell.NAMED:
            items.append(Item("store", bs, spell.string_lit(bs, "named"), "named"))
            items.append(Item("default", bs, spell.string_lit(bs, "named"), "named"))
        items.append(Item("default", bs, spell.string_lit(bs, "hex"), "hex"))
        items.append(Item("default", bs, spell.binary_lit(bs), "binary"))
        cc = spell.char_const(b)
        if cc is not None:
            items.append(Item("char", b, cc, "atom"))
            items.append(Item("char", b, "[" + cc + " + 0]", "math"))
    return items


def chunked(seq, n):
    for i in range(0, len(seq), n):
        yield seq[i:i + n]


ARGV_SETS = [
    ["-O1", "-findirect-start-ptr"],
    ["-O3", "-findirect-start-ptr"],
    ["-O0", "-findirect-start-ptr", "-fstrings-as-u8"],
    ["-O2", "-findirect-start-ptr", "-fallocate-str-space-dynamic"],
    ["-O2", "-findirect-start-ptr", "-fallocate-str-space-dynamic-on-demand", "--collapsed-range-length", "2"],
]


def exhaustive_worker(job):
    idx, items, argv, unterm, known = job
    shard = Shard()
    try:
        run_batch(shard, items, argv, unterm)
    except Failure as f:
        # isolate: rerun item by item so that every distinct root cause in the batch is seen
        for it in items:
            try:
                run_batch(Shard(), [it], argv, unterm)
            except Failure as g:
                if g.sig in known:
                    shard.known_hits[g.sig] += 1
                else:
                    shard.failures.append({"sig": g.sig, "what": g.what, "replay": g.replay})
        if not shard.failures and not shard.known_hits:
            shard.failures.append({"sig": f.sig, "what": f.what, "replay": f.replay})
    if idx % 7 == 0:
        shard.sample({"argv": argv, "items": [it.describe() for it in items[:3]]})
    return shard


# ------------------------------------------------------------------ part B: generated multi-byte strings and numbers

SHARP = [0x00, 0x01, 0x08, 0x09, 0x0a, 0x0d, 0x1f, 0x20, 0x22, 0x27, 0x2f, 0x30, 0x39, 0x41, 0x46, 0x5a, 0x5c, 0x61, 0x66, 0x7a,
         0x7e, 0x7f, 0x80, 0xc3, 0xff]
byte_st = st.one_of(st.sampled_from(SHARP), st.sampled_from(list(b"0123456789abcdefABCDEF")), st.integers(0, 255))
style_st = st.sampled_from(["raw", "raw", "hex", "named", "auto"])


@st.composite
def string_item(draw):
    bs = bytes(draw(st.lists(byte_st, min_size=1, max_size=6)))
    kind = draw(st.sampled_from(["match", "match", "casei", "store", "store", "default", "matchb", "defaultb"]))
    if kind in ("matchb", "defaultb"):
        seps = [draw(st.sampled_from(["", " ", "  ", "_", ", "])) for _ in bs]
        # separators other than hex digits are skipped by the documented "hex pairs" reading; only blanks are documented
        seps = [s if s in ("", " ", "  ") else " " for s in seps]
        ups = [draw(st.booleans()) for _ in bs]
        text = spell.binary_lit(bs, seps, ups)
        return Item("match" if kind == "matchb" else "default", bs, text, "binary")
    styles = [draw(style_st) for _ in bs]
    ups = [draw(st.booleans()) for _ in bs]
    text = spell.string_lit(bs, styles, ups, suffix="i" if kind == "casei" else "")
    return Item(kind, bs, text, ",".join(styles))


BOUND = [0, 1, 2, 7, 9, 10, 15, 16, 48, 127, 128, 255, 256, 32767, 32768, 65535, 65536, 2**31 - 1, 2**31, 2**32 - 1, 2**32,
         2**53, 2**63 - 1]


@st.composite
def int_item(draw):
    v = draw(st.one_of(st.sampled_from(BOUND), st.integers(0, 2**63 - 1)))
    radix = draw(st.sampled_from(["dec", "hex", "bin"]))
    neg = draw(st.booleans()) and radix != "bin"
    ctx = draw(st.sampled_from(["atom", "math", "default", "mathneg"]))
    if neg:
        v = -v
    plus = draw(st.booleans())
    text = spell.int_lit(v, radix, plus=plus and not neg, upper=draw(st.booleans()), pad=draw(st.sampled_from([0, 0, 1, 3])) if radix != "dec" else 0)
    if ctx == "atom":
        return Item("int", v, text, radix)
    if ctx == "math":
        if text[0] in "+-":   # a sign is not part of a math atom's RADIX_NUMBER unambiguously; parenthesise through 0 +
            return Item("int", v, "[0 + (%s)]" % text if False else "[(%s)]" % text, radix + "/math")
        return Item("int", v, "[%s]" % text, radix + "/math")
    if ctx == "mathneg":
        if text[0] in "+-":
            text = text[1:]
            v = abs(v)
        return Item("int", -v, "[-%s]" % text, radix + "/negate")
    return Item("intdef", v, text, radix + "/default")


@st.composite
def batch(draw):
    items = draw(st.lists(st.one_of(string_item(), string_item(), int_item()), min_size=8, max_size=MAXITEMS))
    argv = draw(st.sampled_from(ARGV_SETS))
    unterm = draw(st.booleans())
    return items, argv, unterm


def generated_worker(job):
    seed, n, known = job
    shard = Shard()

    def body(val):
        items, argv, unterm = val
        run_batch(shard, items, argv, unterm, exhaustive_single=False)
        if len(shard.samples) < 2:
            shard.sample({"argv": argv, "unterminated": unterm, "items": [it.describe() for it in items[:4]]})

    common.hyp_run(shard, body, batch(), n, seed, known_keys=known)
    return shard


def main(ctx):
    quick = ctx.tier == "quick"
    known = tuple(ctx.open_keys)
    items = single_byte_items()
    jobs = []
    for i, ch in enumerate(chunked(items, MAXITEMS)):
        jobs.append((i, ch, ARGV_SETS[i % len(ARGV_SETS)], (i % 3 == 2), known))
    ctx.pmap(exhaustive_worker, jobs)
    ctx.exhaustive = True
    ctx.total.extra["exhaustive_part"] = "%d single-byte items (every byte 0..255 x spelling x context); each match item fed all 256 byte values" % len(items)
    n = 30 if quick else 400
    ctx.pmap(generated_worker, [(ctx.seed * 100003 + i, n, known) for i in range(common.NPROC)])
    ctx.rule = ("item = (context, byte string or number, per-byte spelling); packed <=40 per parser and observed through the gcc-built C "
                "binary in indirect-pointer mode. Non-trivial/distinct = distinct (context, literal text). Match items: accept exactly "
                "(all 256 bytes for single-byte literals, neighbours +-1/case-flip/0x80-flip/0/255 at every position otherwise) and FAIL offset; "
                "store items: bytes, counter, terminator; value items: 64-bit readback.")
    ctx.assumptions = ["raw (unescaped) source characters are only used for printable ASCII; non-ASCII source characters are excluded (encoding not fixed by the reference)",
                       "whitespace inside text regexes only in its escaped forms", "LP64 gcc"]
    ctx.required_classes = ["kind:match", "kind:casei", "kind:store", "kind:default", "kind:char", "kind:int", "kind:intdef", "kind:regex1", "kind:set"]


def replay(ctx, data):
    rp = data["replay"]
    print(rp["source"])
    out = front.compile_src(rp["source"], rp["argv"])
    print(out)
    return 0
