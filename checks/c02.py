"""
C02 - the parsing result is independent of how the input is chunked.

Metamorphic: for one binary, the one-byte-per-call run is the baseline; every other composition of the input
into chunks must give the same event stream: hook calls (name, inval, outputs seen), yields (code, absolute
offset), terminal result (code, absolute offset), final outputs.  OK must leave *start at the chunk end.
The state struct is memcpy-moved to a fresh heap block between calls and every chunk lives in its own
exact-size heap block (nothing but the state struct may carry over).
"""
import glob
import itertools
import json
import os
import time

from hypothesis import strategies as st

from vlib import am as am_mod
from vlib import common, crun, front, gen, inputs, options, trace
from vlib.common import Failure, Shard


def event_stream(calls, info, chunks):
    """Normalise a run to (events, problems). Stops at the first terminal result."""
    ev = []
    problems = []
    base = 0
    ci = 0          # index into chunks for feed calls
    final = None
    pending_chunk_end = None
    for c in calls:
        if c.kind == "start":
            for h in c.hooks:
                ev.append(("hook",) + h)
            if c.code != 0:
                ev.append(("terminal", c.code, None))
                final = c.vars
                return ev, problems, final
            final = c.vars
            continue
        if c.kind in ("HANG", "YIELDSPIN", "GUARD-CORRUPT"):
            problems.append(c.kind)
            return ev, problems, final
        if c.kind == "end":
            for h in c.hooks:
                ev.append(("hook",) + h)
            ev.append(("end", c.code))
            final = c.vars
            continue
        if c.kind != "feed":
            continue
        for h in c.hooks:
            ev.append(("hook",) + h)
        final = c.vars
        chunk_end = base + len(chunks[ci])
        if info.is_yield(c.code):
            ev.append(("yield", c.code, c.off))
            continue      # same chunk is re-fed
        if info.is_terminal(c.code):
            ev.append(("terminal", c.code, c.off))
            return ev, problems, final
        if c.code == 0:
            if info.indirect and c.off != chunk_end:
                problems.append("OK returned with *start=%s but the chunk ends at %d" % (c.off, chunk_end))
        else:
            problems.append("unknown result code %d" % c.code)
        base = chunk_end
        ci += 1
    return ev, problems, final


def compositions(n, limit_all=9):
    """Cut-position tuples for an input of length n."""
    if n <= 1:
        return [()]
    if n <= limit_all:
        out = []
        for k in range(0, n):
            for cuts in itertools.combinations(range(1, n), k):
                out.append(cuts)
        return out
    out = [()]
    for c in range(1, n):
        out.append((c,))
    for c in range(1, n - 1):
        out.append((c, c + 1))
    out.append(tuple(range(2, n, 2)))
    out.append(tuple(range(1, n, 3)))
    return out


def chunks_of(data, cuts):
    prev = 0
    out = []
    for c in list(cuts) + [len(data)]:
        out.append(data[prev:c])
        prev = c
    return out


def check_program(shard, prog, argv, choices_list, extra_cut_sets=(), zero_len=False, limit_all=9):
    src = prog if isinstance(prog, str) else prog.source()
    replay = {"source": src, "argv": argv}
    shard.event("programs_generated")
    out = front.compile_src(src, argv)
    if not out.accepted:
        shard.event("rejected")
        return
    comp = out.compiled
    m = am_mod.Machine(comp)
    datas = []
    for ch in choices_list:
        d = ch if isinstance(ch, (bytes, bytearray)) else inputs.guided_input(m, ch, max_len=16)
        if len(d) < 2:
            continue
        try:
            trace.am_calls(m, [d[j:j + 1] for j in range(len(d))], indirect=comp.do("INDIRECT_START_PTR"))
        except am_mod.Undefined:
            shard.event("input_undefined_skipped")
            continue
        except am_mod.Spin:
            shard.event("input_spin_skipped")
            continue
        datas.append(bytes(d))
    if not datas:
        return
    shard.event("programs")
    try:
        # yield programs are re-invoked at chunk ends: build them with ASan so that a read past the chunk's exact-size block is caught
        binary = crun.Binary(comp, sanitize=bool(comp.dctx.yield_codes))
    except crun.BuildError as e:
        raise Failure("c02:c-build-error", "generated C does not build:\n" + str(e)[-1200:], replay)
    info = binary.info
    try:
        for d in datas:
            n = len(d)
            sched = [tuple(range(1, n))] + [c for c in compositions(n, limit_all) if c != tuple(range(1, n))]
            for extra in extra_cut_sets:
                cs = tuple(sorted(set(x % n for x in extra if 0 < x % n < n)))
                if cs not in sched:
                    sched.append(cs)
            sc = crun.Script()
            chunk_lists = []
            for cuts in sched:
                chunks = chunks_of(d, cuts)
                if zero_len and info.indirect is not None and comp.do("ZERO_LEN_INPUT_SUPPORT") and len(chunks) > 1:
                    # legal only with zero-length support: sprinkle empty chunks
                    k = (sum(cuts) + n) % len(chunks)
                    chunks = chunks[:k] + [b""] + chunks[k:]
                chunk_lists.append(chunks)
                sc.b += trace.script_for(chunks, call_end=info.eof, call_free=info.dynmem, move=True).b
            rc, outp, err = binary.run_raw(sc)
            if rc != 0 and "AddressSanitizer" in err:
                raise Failure("c02:read-outside-chunk", "sanitizer report (input %s):\n%s" % (d.hex(), err[-1200:]), dict(replay, input=d.hex()))
            if rc != 0:
                kind = "hang" if rc == 3 else "crash"
                raise Failure("c02:c-" + kind, "driver exit %s\n%s\n%s" % (rc, outp[-300:], err[-800:]), dict(replay, input=d.hex()))
            runs = [trace.c_calls(r) for r in crun.parse_log(outp)]
            if len(runs) != len(sched):
                raise common.HarnessError("run count mismatch")
            base_ev, base_prob, base_final = event_stream(runs[0], info, chunk_lists[0])
            if base_prob:
                raise Failure("c02:protocol:" + base_prob[0].split(" ")[0], "one byte per call, input=%s: %s" % (d.hex(), base_prob),
                              dict(replay, input=d.hex()))
            interesting = len(base_ev) >= 2 and n >= 4
            for cuts, chunks, run in zip(sched[1:], chunk_lists[1:], runs[1:]):
                shard.event("evaluations")
                ev, prob, final = event_stream(run, info, chunks)
                if prob:
                    raise Failure("c02:protocol:" + prob[0].split(" ")[0], "input=%s chunks=%r: %s" % (d.hex(), [c.hex() for c in chunks], prob),
                                  dict(replay, input=d.hex(), cuts=list(cuts)))
                if ev != base_ev or final != base_final:
                    i = next((k for k, (x, y) in enumerate(zip(ev, base_ev)) if x != y), min(len(ev), len(base_ev)))
                    kind = "final-outputs" if ev == base_ev else (ev[i][0] if i < len(ev) else "missing-event")
                    raise Failure("c02:chunking-changes:" + kind,
                                  "input=%s\nchunks=%r\nfirst differing event #%d\n  byte-per-call: %r\n  this schedule: %r\nfinal outputs: %r vs %r"
                                  % (d.hex(), [c.hex() for c in chunks], i, base_ev[i] if i < len(base_ev) else None, ev[i] if i < len(ev) else None,
                                     base_final, final), dict(replay, input=d.hex(), cuts=list(cuts)))
            if interesting:
                shard.nontriv(src + d.hex())
                shard.event("class:multi_event_input")
            if any(e[0] == "yield" for e in base_ev):
                shard.event("class:yield_in_trace")
            if len(shard.samples) < 2 and interesting:
                shard.sample({"source": src, "argv": argv, "input": d.hex(), "schedules": len(sched), "events": len(base_ev)})
    finally:
        binary.close()


@st.composite
def yield_tail_program(draw):
    """A token that yields, directly followed by an optional / open-ended tail (the program may end right after the yield)."""
    from vlib import ir
    n = draw(st.integers(1, 3))
    toks = draw(st.permutations([b"ab", b"x", b"cd", b"q"]))[:n]
    ycodes = ["Y%d" % i for i in range(n)]
    clauses = tuple((((("lit", t, "str"),)), None, (("yield", ycodes[i]),)) for i, t in enumerate(toks))
    tail_kind = draw(st.sampled_from(["optional", "optional-hook", "star", "plus-append", "nothing", "literal"]))
    outs = [("str", "s0", 4, True, None, False)]
    if tail_kind == "optional":
        tail = (("optional", (("match", ("lit", b"ef", "str")),)),)
    elif tail_kind == "optional-hook":
        tail = (("optional", (("match", ("lit", b"ef", "str")), ("hook", "h0"))),)
    elif tail_kind == "star":
        tail = (("match", ("re", ("op", ("lit", 0x65), "*"), False)),)
    elif tail_kind == "plus-append":
        tail = (("append", "s0", ("re", ("op", ("set", (("r", 0x65, 0x66),), False), "*"), False)),)
    elif tail_kind == "literal":
        tail = (("match", ("lit", b"e", "str")), ("hook", "h0"))
    else:
        tail = ()
    body = (("case", False, clauses),) + tail
    prog = ir.Program(outs, ["h0"], [], ycodes, [], body, [draw(st.sampled_from(gen.OPT_LEVELS)), "-fyield-support"])
    return prog


@st.composite
def case_strategy(draw):
    if draw(st.integers(0, 4)) == 0:
        prog = draw(yield_tail_program())
        argv = list(prog.argv) + draw(st.sampled_from([[], ["-fstrict-done-token-generation"], ["-fallocate-str-space-dynamic"]]))
        datas = [bytes(draw(st.lists(st.sampled_from(list(b"abxcdqef")), min_size=2, max_size=6))) for _ in range(3)]
        return prog, argv, datas, []
    fam = draw(st.integers(0, 9))
    if fam == 2:
        prog, datas = draw(gen.yield_overflow_program())
        k = draw(st.integers(0, len(datas) - 5))
        return prog, list(prog.argv) + draw(options.codegen_options(indirect=None)), datas[k:k + 5], []
    if fam in (0, 1):
        prog, datas = draw(gen.break_loop_program() if fam == 0 else gen.last_foreach_program())
        argv = list(prog.argv) + draw(options.codegen_options(indirect=None))
        return prog, argv, datas[:6], []
    mode = draw(st.sampled_from(["plain", "plain", "yield", "yield", "eof"]))
    cfg = gen.GenConfig(max_depth=2, max_stmts=5, allow_yield=(mode == "yield"), allow_end=(mode == "eof"),
                        kinds={"yield": 3 if mode == "yield" else 0, "append": 4, "hook": 4, "match": 8, "if": 3, "foreach": 2}, wide_bytes=0.05, allow_last=True)
    prog = draw(gen.program(cfg))
    argv = list(prog.argv) + draw(options.codegen_options(indirect=True if mode == "yield" else None))
    choices = draw(st.lists(st.lists(st.integers(0, 4095), min_size=3, max_size=16), min_size=1, max_size=3))
    extra = draw(st.lists(st.lists(st.integers(1, 40), min_size=1, max_size=5), min_size=0, max_size=6))
    return prog, argv, choices, extra


def worker(job):
    seed, n, known, stop_at, limit_all = job
    shard = Shard()

    def body(val):
        prog, argv, choices, extra = val
        check_program(shard, prog, argv, choices, extra, zero_len=True, limit_all=limit_all)

    common.hyp_run(shard, body, case_strategy(), n, seed, known_keys=known, stop_at=stop_at)
    return shard


def regress_worker(job):
    path, known = job
    shard = Shard()
    with open(path) as fh:
        d = json.load(fh)
    try:
        check_program(shard, d["source"], d["argv"], [bytes.fromhex(x) for x in d["inputs"]], zero_len=True)
    except Failure as f:
        if f.sig in known:
            shard.known_hits[f.sig] += 1
        else:
            shard.failures.append({"sig": f.sig, "what": "regression case %s: %s" % (path, f.what), "replay": f.replay})
    shard.event("regression_cases")
    return shard


def main(ctx):
    quick = ctx.tier == "quick"
    known = tuple(ctx.open_keys)
    reg = sorted(glob.glob(os.path.join(common.VERIF_DIR, "regress", "C02", "*.json")))
    ctx.pmap(regress_worker, [(p, known) for p in reg])
    n = 120 if quick else 1500
    stop_at = time.time() + (70 if quick else 900)
    ctx.pmap(worker, [(ctx.seed * 100003 + i, n, known, stop_at, 8 if quick else 11) for i in range(common.NPROC)])
    ctx.rule = ("case = (generated program, option set, guided input of 2..16 bytes); all 2^(n-1) chunk compositions for n <= 8 (quick) / 11 "
                "(thorough), otherwise every single and double cut, strided cuts and Hypothesis-drawn cut sets; zero-length chunks inserted when "
                "zero-length support is on; evaluations = schedules compared with the one-byte-per-call baseline of the same binary. "
                "Non-trivial: input of >= 4 bytes producing >= 2 events; distinct by (source, input).")
    ctx.assumptions = ["the one-byte-per-call run of the same binary is the baseline (metamorphic oracle, no model involved)",
                       "inputs on which the program's behaviour is undefined in C are skipped (abstract machine)"]
    ctx.required_classes = ["programs", "class:multi_event_input", "class:yield_in_trace"]


def replay(ctx, data):
    rp = data["replay"]
    print(rp["source"])
    print(rp["argv"], rp.get("input"), rp.get("cuts"))
    return 0
