"""
C16 - wait never fails and stops at the first restart-semantics match.

(a) structure: for `parser { wait P; }` the compiled machine is compared with the independently built *restart
    automaton* of P (parser.md: on a mismatch the partial match is abandoned and matching resumes from the pattern's
    beginning with the offending byte, skipped if it cannot start the pattern) by product search over all 256 bytes:
    completion at exactly the same prefixes, never the fail state, end-of-input changes nothing.
(b) behaviour: templates  T1 `wait P; "Z";`   T2 `try { wait P; "Z"; m = 2; } catch { m = 1; }`  are run on *every*
    input up to length L over P's bytes + Z + one outsider on the abstract machine (and sampled on the C binary) and
    compared with a reference computed from the restart automaton: where the wait completes, what follows, handler
    never entered before completion, end() during the wait reports FAIL without entering the handler.
    T3 / T4 are T1 / T2 with the lead-in `/[^S]+/;` directly in front of the wait (S = the pattern's first bytes plus one byte
    that cannot start it), so that the wait is entered from a state that spells out its own error symbols.
    T5 / T6 are `"G"; optional { wait P; } "Z";` (plain / in a try): the wait is the body of an optional, entered on the pattern's first bytes.
"""
import glob
import json
import os
import time

from hypothesis import strategies as st

from vlib import am as am_mod
from vlib import common, crun, dfawalk, front, gen, ir, rx, trace, walk
from vlib.common import Failure, Shard

OK, FAIL, DONE = 0, 1, 2


def completion_index(auto, word):
    """Index i such that the wait completes having consumed word[i] (restart semantics), or None."""
    q = auto.start
    for i, b in enumerate(word):
        q = rx.restart_step(auto, q, b)
        if rx.nullable(q):
            return i
    return None


def structural(shard, pat, argv):
    src = "parser {\n    wait %s;\n}\n" % ir.print_match(pat)
    out = front.compile_src(src, argv)
    if not out.accepted:
        shard.event("rejected:" + type(out.exc).__name__)
        return None
    comp = out.compiled
    tabs = dfawalk.Tables(comp)
    core = ir.match_core(pat)
    auto = rx.Auto(core)
    seen = set()
    work = [(auto.start, comp.dfa.starting_state, ())]
    while work:
        q, s, word = work.pop()
        if (q, id(s)) in seen:
            continue
        seen.add((q, id(s)))
        done_rx = rx.nullable(q)
        done_nm = tabs.is_accepting(s)
        if done_rx != done_nm:
            return ("completion-differs", word, "after %r: restart automaton %s, compiled machine %s" %
                    (bytes(word), "complete" if done_rx else "incomplete", "accepting" if done_nm else "not accepting"))
        if done_rx:
            continue
        # END must not move the machine anywhere but (at most) back into the wait
        for b in range(256):
            nq = rx.restart_step(auto, q, b)
            st_ = s
            hops = 0
            while True:
                tr = tabs.table(st_)[b]
                if tr is None or tr.target is None or tr.target is tabs.fail:
                    return ("wait-can-fail", word + (b,), "after %r byte 0x%02x leads to the fail state / no transition" % (bytes(word), b))
                if tr.is_fallthrough:
                    st_ = tr.target
                    hops += 1
                    if hops > 50:
                        return ("wait-loops", word + (b,), "fallthrough cycle")
                    continue
                ns = tr.target
                break
            if (nq, id(ns)) not in seen:
                work.append((nq, ns, word + (b,)))
    shard.event("structural_pairs", len(seen))
    return None


def reference(auto, word, template, lead=None):
    """Expected (code, offset, m) after feeding `word` byte per call; offset = *start afterwards (indirect).
    Templates T3 / T4 put the lead-in /[^S]+/ (S = `lead`) in front of the wait of T1 / T2."""
    if template in ("T3", "T4"):
        inner = "T1" if template == "T3" else "T2"
        if word and word[0] in lead:
            return (FAIL, 0, 0, "lead-fail") if template == "T3" else (DONE, 0, 1, "lead-handler")
        j = next((i for i, b in enumerate(word) if b in lead), None)
        if j is None:
            return (OK, len(word), 0, "lead-incomplete")
        base = reference(auto, word[j:], inner)
        if base[0] == OK:
            return (OK, len(word), 0, base[3])
        return (base[0], base[1] + j, base[2], base[3])
    if template in ("T5", "T6"):
        # "G"; optional { wait P; } "Z";   (lead = First(P): the optional is entered on exactly those bytes)
        inner = "T1" if template == "T5" else "T2"
        if not word:
            return (OK, 0, 0, "lead-incomplete")
        if word[0] != 0x47:
            return (FAIL, 0, 0, "lead-fail") if template == "T5" else (DONE, 0, 1, "lead-handler")
        if len(word) == 1:
            return (OK, 1, 0, "lead-incomplete")
        if word[1] in lead:
            base = reference(auto, word[1:], inner)
            if base[0] == OK:
                return (OK, len(word), 0, base[3])
            return (base[0], base[1] + 1, base[2], base[3])
        if word[1] == 0x5a:
            return (DONE, 1, 2 if template == "T6" else 0, "done")
        return (FAIL, 1, 0, "fail-after") if template == "T5" else (DONE, 1, 1, "handler-after")
    k = completion_index(auto, word)
    n = len(word)
    if k is None:
        return (OK, n, 0, "incomplete")
    if k + 1 >= n:
        return (OK, n, 0, "complete-awaiting-Z")
    if word[k + 1] == 0x5a:
        return (DONE, k + 1, 2 if template == "T2" else 0, "done")
    if template == "T1":
        return (FAIL, k + 1, 0, "fail-after")
    return (DONE, k + 1, 1, "handler-after")


def check_pattern(shard, pat, template, argv, max_len, do_c=True):
    core = ir.match_core(pat)
    auto = rx.Auto(core)
    ptxt = ir.print_match(pat)
    lead = None
    if template in ("T3", "T4"):
        # lead-in /[^S]+/ directly in front of the wait; S = the pattern's first bytes plus one byte (x) that cannot start it
        fs = sorted(rx.first(core))
        if len(fs) > 6 or 0x5a in fs or any(not (0x21 <= b < 0x7f) or chr(b) in "\\]^-[/" for b in fs):
            template = "T1" if template == "T3" else "T2"
        else:
            extra = next(b for b in (0x78, 0x79, 0x71) if b not in fs)
            lead = frozenset(fs) | {extra}
            ltxt = "/[^%s]+/" % "".join(chr(b) for b in sorted(lead))
    opt_first = None
    if template in ("T5", "T6"):
        fs = rx.first(core)
        if 0x47 in fs or 0x5a in fs or rx.nullable(core):
            template = "T1" if template == "T5" else "T2"
        else:
            opt_first = frozenset(fs)
    if template == "T5":
        src = "out int m = 0;\nparser {\n    \"G\";\n    optional {\n        wait %s;\n    }\n    \"Z\";\n}\n" % ptxt
    elif template == "T6":
        src = ("out int m = 0;\nparser {\n    try {\n        \"G\";\n        optional {\n            wait %s;\n        }\n        \"Z\";\n        m = 2;\n    }\n"
               "    catch {\n        m = 1;\n    }\n}\n" % ptxt)
    elif template == "T1":
        src = "out int m = 0;\nparser {\n    wait %s;\n    \"Z\";\n}\n" % ptxt
    elif template == "T2":
        src = "out int m = 0;\nparser {\n    try {\n        wait %s;\n        \"Z\";\n        m = 2;\n    }\n    catch {\n        m = 1;\n    }\n}\n" % ptxt
    elif template == "T3":
        src = "out int m = 0;\nparser {\n    %s;\n    wait %s;\n    \"Z\";\n}\n" % (ltxt, ptxt)
    else:
        src = ("out int m = 0;\nparser {\n    try {\n        %s;\n        wait %s;\n        \"Z\";\n        m = 2;\n    }\n    catch {\n        m = 1;\n    }\n}\n"
               % (ltxt, ptxt))
    shard.event("template:" + template)
    replay = {"source": src, "argv": argv, "pattern": ptxt, "template": template}
    res = structural(shard, pat, [a for a in argv if a != "-feof-support"])
    shard.event("evaluations")
    if res is not None:
        raise Failure("c16:structure:" + res[0], "pattern %s\nwitness %s\n%s" % (ptxt, bytes(res[1]).hex(), res[2]), dict(replay, word=bytes(res[1]).hex()))
    out = front.compile_src(src, argv)
    if not out.accepted:
        shard.event("rejected_template:" + type(out.exc).__name__)
        return
    comp = out.compiled
    m = am_mod.Machine(comp)
    first = sorted(rx.first(core))
    alphabet = []
    for b in sorted(set(b for s in rx.charsets_of(core) if len(s) <= 4 for b in s))[:3]:
        alphabet.append(b)
    for b in first[:1]:
        if b not in alphabet:
            alphabet.append(b)
    alphabet = alphabet[:3] + [0x5a]
    outsider = next(b for b in (0x23, 0x7e, 0x00, 0x01) if b not in alphabet and all(b not in s for s in rx.charsets_of(core) if len(s) <= 128))
    alphabet.append(outsider)
    if lead is not None:
        for b in sorted(lead):
            if b not in alphabet:
                alphabet.append(b)
        alphabet = alphabet[-6:] if len(alphabet) > 6 else alphabet
        if outsider not in alphabet:
            alphabet[0] = outsider
    if opt_first is not None:
        lead = opt_first
        alphabet = [b for b in alphabet if b != 0x47][-5:] + [0x47]
    border = has_border(pat)
    eof = "-feof-support" in argv
    words_for_c = []

    def visit(word, tls, cfgs):
        shard.event("evaluations")
        tl = tls[0]
        cfg = cfgs[0]
        want = reference(auto, word, template, lead)
        code = tl.terminal[1] if tl.terminal else OK
        mval = cfg.vars["m"]
        if tl.terminal is not None and tl.terminal[0] != len(word) - 1 and want[3] in ("incomplete", "complete-awaiting-Z"):
            pass
        ok = True
        if want[0] == OK:
            ok = (tl.terminal is None) and mval == 0
        else:
            ok = (tl.terminal is not None and code == want[0] and mval == want[2])
            # position: the terminal must have been produced while dispatching byte want[1]
            if ok and tl.terminal[0] != want[1]:
                ok = False
        if not ok:
            raise Failure("c16:behaviour:" + want[3], "pattern %s template %s input %s: expected %s (code %d at byte %d, m=%d) but machine gives terminal=%r m=%d"
                          % (ptxt, template, word.hex(), want[3], want[0], want[1], want[2], tl.terminal, mval), dict(replay, input=word.hex()))
        if eof and tl.terminal is None and want[3] == "incomplete":
            c2 = cfg.copy()
            r = m.end(c2)
            if r.code != FAIL or c2.vars["m"] != 0:
                raise Failure("c16:end-during-wait", "pattern %s input %s then end(): expected FAIL with m=0, got code %d m=%d" % (ptxt, word.hex(), r.code, c2.vars["m"]),
                              dict(replay, input=word.hex()))
        if len(word) == max_len and len(words_for_c) < 40 and (sum(word) % 7 == 0):
            words_for_c.append(word)

    stats = walk.joint_walk([m], alphabet, max_len, visit, node_cap=6000)
    # long structured words for literal patterns: every proper prefix followed by the whole pattern, then Z
    if pat[0] == "lit" and pat[2] != "casei":
        pb = pat[1]
        for k in range(0, len(pb)):
            for tail in (b"Z", b"#", b""):
                w = pb[:k] + pb + tail
                cfg, tl = walk.start_timeline(m)
                try:
                    for i, byte in enumerate(w):
                        if tl.terminal is None:
                            walk.step_timeline(m, cfg, tl, i, byte)
                except (am_mod.Undefined, am_mod.Spin):
                    continue
                visit(w, [tl], [cfg])
                shard.event("structured_words")
    if border:
        shard.event("class:pattern_with_border")
        shard.nontriv(ptxt + template)
    elif len(first) > 1:
        shard.nontriv(ptxt + template)
    # ---- C confirmation on sampled words
    if do_c and words_for_c:
        c2 = front.compile_src(src, argv + ["-findirect-start-ptr"]).compiled
        try:
            b = crun.Binary(c2)
        except crun.BuildError as e:
            raise Failure("c16:c-build-error", str(e)[-800:], replay)
        try:
            sc = crun.Script()
            for w in words_for_c:
                sc.b += trace.script_for([w[i:i + 1] for i in range(len(w))], call_end=False, move=False).b
            rc, outp, err = b.run_raw(sc)
            if rc != 0:
                raise Failure("c16:c-crash", "rc=%s %s" % (rc, err[-500:]), replay)
            for w, run in zip(words_for_c, crun.parse_log(outp)):
                calls = [c for c in trace.c_calls(run) if c.kind == "feed"]
                want = reference(auto, w, template, lead)
                last = calls[-1]
                shard.event("evaluations")
                shard.event("c_runs")
                if want[0] == OK:
                    ok = last.code == OK and last.vars["m"] == 0
                else:
                    ok = last.code == want[0] and last.off == want[1] and last.vars["m"] == want[2]
                if not ok:
                    raise Failure("c16:c-behaviour:" + want[3], "pattern %s template %s input %s: expected %r, C gives %r" % (ptxt, template, w.hex(), want, last),
                                  dict(replay, input=w.hex()))
        finally:
            b.close()
    if len(shard.samples) < 3:
        shard.sample({"pattern": ptxt, "template": template, "argv": argv, "alphabet": alphabet, "walk_nodes": stats["nodes"]})


def has_border(pat):
    if pat[0] != "lit":
        return False
    b = pat[1]
    return any(b[:k] == b[-k:] for k in range(1, len(b)))


@st.composite
def pattern(draw):
    kind = draw(st.sampled_from(["periodic", "periodic", "lit", "casei", "regex", "cat"]))
    if kind == "periodic":
        base = draw(st.sampled_from([b"abab", b"aab", b"aa", b"aba", b"abcab", b"aaab", b"abaab", b"abcdabce"]))
        return ("lit", base, draw(st.sampled_from(["str", "bin"])))
    if kind == "lit":
        return ("lit", bytes(draw(st.lists(st.sampled_from(list(b"abc")), min_size=1, max_size=4))), "str")
    if kind == "casei":
        return ("lit", bytes(draw(st.lists(st.sampled_from(list(b"abA")), min_size=1, max_size=3))), "casei")
    cfg = gen.GenConfig(wide_bytes=0.0)
    if kind == "regex":
        r = draw(gen.regex(cfg, False, depth=draw(st.integers(1, 2)), closed=True))
        m = ("re", r, False)
    else:
        m = ("cat", (("lit", bytes(draw(st.lists(st.sampled_from(list(b"ab")), min_size=1, max_size=2))), "str"),
                     ("re", draw(gen.regex(cfg, False, depth=1, closed=True)), False)))
    s = ir.match_summary(m)
    if s.nullable or s.tail:
        return ("lit", b"ab", "str")
    try:
        ir.print_match(m)
    except rx.Unspellable:
        return ("lit", b"ba", "str")
    return m


@st.composite
def case_strategy(draw):
    pat = draw(pattern())
    template = draw(st.sampled_from(["T1", "T2", "T2", "T3", "T4", "T5", "T6"]))
    argv = [draw(st.sampled_from(gen.OPT_LEVELS))]
    if draw(st.booleans()):
        argv.append("-feof-support")
    return pat, template, argv


def worker(job):
    seed, n, known, stop_at, max_len = job
    shard = Shard()

    def body(val):
        pat, template, argv = val
        check_pattern(shard, pat, template, argv, max_len)

    common.hyp_run(shard, body, case_strategy(), n, seed, known_keys=known, stop_at=stop_at)
    return shard


def fixed_worker(job):
    pat, template, argv, known, max_len = job
    shard = Shard()
    try:
        check_pattern(shard, pat, template, argv, max_len)
    except Failure as f:
        if f.sig in known:
            shard.known_hits[f.sig] += 1
        else:
            shard.failures.append({"sig": f.sig, "what": f.what, "replay": f.replay})
    return shard


FIXED = [("lit", b"abcdabce", "str"), ("lit", b"abab", "str"), ("lit", b"aab", "str"), ("lit", b"\r\n", "str"), ("lit", b"aA", "casei")]

# /(a|b)([^a]a)/: at -O3 the restart transition on {'a', End} was merged with the start state's Else transition (fixed 0b9df9f)
FIXED_O3 = [("re", ("seq", (("alt", (("lit", 0x61), ("lit", 0x62))), ("seq", (("set", (("c", 0x61),), True), ("lit", 0x61))))), False)]


def main(ctx):
    quick = ctx.tier == "quick"
    known = tuple(ctx.open_keys)
    ml = 6 if quick else 8
    ctx.pmap(fixed_worker, [(p, t, ["-O1", "-feof-support"], known, ml) for p in FIXED for t in ("T1", "T2", "T3", "T4", "T5", "T6")]
             + [(p, "T1", ["-O3"], known, ml) for p in FIXED_O3])
    n = 40 if quick else 600
    stop_at = time.time() + (70 if quick else 900)
    ctx.pmap(worker, [(ctx.seed * 100003 + i, n, known, stop_at, ml) for i in range(common.NPROC)])
    ctx.rule = ("case = (wait pattern: literals with internal periodicity, casei, closed regexes, concatenations; templates T1-T6 (plain / in a try / behind a negated-class lead-in / as the body of an optional); (T3, T4: behind a negated-class lead-in); -O level; EOF on/off). "
                "Per case: exact product search of the compiled `wait P` against the restart automaton over 256 bytes, then every input up to length %d "
                "over the pattern's bytes + Z + an outsider through the abstract machine against the reference outcome, end() during the wait, and "
                "sampled words through the C binary. evaluations = inputs compared. Non-trivial: pattern with a proper border (prefix = suffix) or "
                "more than one possible first byte; distinct by (pattern, template)." % ml)
    ctx.assumptions = ["wait patterns are closed and non-nullable (completion point unambiguous)", "restart automaton built from parser.md's description only"]
    ctx.required_classes = ["structural_pairs", "class:pattern_with_border", "c_runs"]


def replay(ctx, data):
    rp = data["replay"]
    print(rp["source"], rp.get("input"))
    return 0
