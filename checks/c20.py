"""
C20 - compilation is a pure function of source and options.

Each generated program (biased to constructs whose compilation iterates over hash-ordered sets: regex alternations
and classes, multi-pattern case clauses, case merges, greedy priorities) is compiled in *fresh processes* under
  PYTHONHASHSEED in {0, 1, 2, random}  x  history {none, after 1-3 other programs incl. rejected ones and other
  flag sets, twice in a row}  x  heap perturbation,
and all runs must agree on the accept/reject verdict and on behaviour: byte-identical C after normalising
object addresses, otherwise identical abstract-machine behaviour on every input up to length L over the program's
byte-class representatives.
"""
import glob
import json
import os
import subprocess
import sys
import time

from hypothesis import strategies as st

from vlib import common, gen, ir, walk
from vlib.common import Failure, Shard


def run_child(job, hashseed):
    env = dict(os.environ)
    env["PYTHONHASHSEED"] = str(hashseed)
    r = subprocess.run([sys.executable, "-m", "vlib.c20_child"], input=json.dumps(job).encode(), capture_output=True, env=env,
                       cwd=common.VERIF_DIR, timeout=300)
    if r.returncode != 0:
        raise common.HarnessError("c20 child failed: " + r.stderr.decode()[-800:])
    return json.loads(r.stdout.decode())


def check_program(shard, src, argv, alphabet, histories, max_len=4):
    replay = {"source": src, "argv": argv}
    shard.event("programs_generated")
    settings = []
    for hs in (0, 1, 2, "random"):
        settings.append((hs, [], 0))
    for i, h in enumerate(histories):
        settings.append((i % 3, h, i + 1))
    settings.append((0, [(src, argv)], 5))          # twice in a row
    results = []
    for hs, hist, perturb in settings:
        job = {"history": hist, "target": (src, argv), "perturb": perturb, "alphabet": alphabet, "max_len": max_len,
               "keep_history_alive": perturb % 2 == 1}
        res = run_child(job, hs)
        results.append(((hs, len(hist), perturb), res))
        shard.event("evaluations")
    base = results[0][1]
    for setting, res in results[1:]:
        if res["kind"] == base["kind"] and res.get("exc") != base.get("exc"):
            shard.event("same_verdict_different_error_class")     # a doubly invalid program may report either problem first
        if res["kind"] != base["kind"]:
            raise Failure("c20:verdict-differs", "setting (hashseed, history length, perturbation) %r gives %s/%s, baseline gives %s/%s (%s | %s)"
                          % (setting, res["kind"], res.get("exc"), base["kind"], base.get("exc"), res.get("msg_head"), base.get("msg_head")),
                          dict(replay, setting=list(map(str, setting))))
    if base["kind"] != "accepted":
        shard.event("not_accepted:" + base["kind"])
        return
    shard.event("programs")
    layouts = set(r["c_hash"] for _, r in results)
    structs = set(r["struct_hash"] for _, r in results)
    if len(layouts) > 1:
        shard.event("c_text_differs_between_runs")
    if len(structs) > 1:
        shard.event("state_layout_differs_between_runs")
    for setting, res in results[1:]:
        if res["behaviour_hash"] != base["behaviour_hash"]:
            raise Failure("c20:behaviour-differs", "setting %r: machine behaves differently from the baseline run (C text %s, structure %s)"
                          % (setting, "equal" if res["c_hash"] == base["c_hash"] else "differs", "equal" if res["struct_hash"] == base["struct_hash"] else "differs"),
                          dict(replay, setting=list(map(str, setting)), alphabet=alphabet))
    has_set_iteration = ("|" in src) or ("case" in src) or ("[" in src)
    if has_set_iteration and len(results) >= 3:
        shard.nontriv(src)
    if len(shard.samples) < 2:
        shard.sample({"source": src, "argv": argv, "settings": [list(map(str, s)) for s, _ in results], "distinct_c_texts": len(layouts),
                      "distinct_state_layouts": len(structs), "walk_nodes": base.get("walk_nodes")})


@st.composite
def greedy_overlap_program(draw):
    """Greedy cases in which three or more patterns can finish on the same input (priority resolution iterates over sets of
    identity-hashed objects)."""
    pats = draw(st.permutations([("re", ("op", ("set", (("r", 0x61, 0x62),), False), "+"), False), ("lit", b"ab", "str"), ("lit", b"a", "str"),
                                 ("re", ("op", ("set", (("r", 0x61, 0x62), ("c", 0x30)), False), "+"), False),
                                 ("re", ("seq", (("lit", 0x61), ("op", ("cls", "w"), "*"))), False)]))[:draw(st.integers(3, 4))]
    clauses = []
    for i, p in enumerate(pats):
        body = (("assign", "n0", ("num", i + 1, "dec")),) + ((("match", ("lit", b"!", "str")),) if draw(st.booleans()) else ())
        clauses.append(((p,), draw(st.sampled_from([None, 0, 1, 1, 2])), body))
    prog = ir.Program([("int", "n0", True, None, 0)], [], [], [], [], (("case", True, tuple(clauses)), ("match", ("lit", b";", "str"))),
                      [draw(st.sampled_from(gen.OPT_LEVELS))])
    return prog


@st.composite
def case_strategy(draw):
    if draw(st.integers(0, 2)) == 0:
        prog = draw(greedy_overlap_program())
        hist = [[(prog.source().replace("prio 1", "prio 3"), list(prog.argv))], [("parser { /(a|b)+c/; }", ["-O3"]), ("parser { case { \"a\" -> {} \"a\" -> {} } }", [])]]
        return prog.source(), list(prog.argv), [0x61, 0x62, 0x30, 0x21, 0x3b], hist
    mode = draw(st.sampled_from(["plain", "plain", "yield", "eof"]))
    cfg = gen.GenConfig(max_depth=2, max_stmts=5, allow_yield=(mode == "yield"), allow_end=(mode == "eof"), regex_weight=7,
                        kinds={"yield": 2 if mode == "yield" else 0, "case": 8, "match": 8, "try": 2, "loop": 2, "append": 3}, valid_bias=0.8)
    prog = draw(gen.program(cfg))
    others = []
    for _ in range(draw(st.integers(1, 2))):
        hist = []
        for _ in range(draw(st.integers(1, 3))):
            p2 = draw(gen.program(gen.GenConfig(max_depth=1, max_stmts=3, valid_bias=0.5)))
            hist.append((p2.source(), list(p2.argv) + draw(st.sampled_from([[], ["-O3"], ["-fyield-support", "-feof-support"]]))))
        others.append(hist)
    alphabet = walk.representatives(ir.byte_alphabet(prog), cap=4)
    if 0x7a not in alphabet:
        alphabet.append(0x7a)
    return prog.source(), list(prog.argv), alphabet, others


def worker(job):
    seed, n, known, stop_at = job
    shard = Shard()

    def body(val):
        src, argv, alphabet, others = val
        check_program(shard, src, argv, alphabet, others)

    common.hyp_run(shard, body, case_strategy(), n, seed, known_keys=known, stop_at=stop_at, shrink=False)
    return shard


def corpus_worker(job):
    path, known = job
    shard = Shard()
    import shlex
    src = open(path).read()
    first = src.splitlines()[0] if src else ""
    argv = shlex.split(first[len("// args: "):]) if first.startswith("// args: ") else ["-O3"]
    other = open(os.path.join(common.REPO, "example", "test", "case1.fail.nmfu")).read()
    try:
        check_program(shard, src, argv, [0x61, 0x62, 0x20, 0x0a, 0x31], [[(other, [])], [(src, ["-O0"] + [a for a in argv if not a.startswith("-O")])]], max_len=3)
    except Failure as f:
        if f.sig in known:
            shard.known_hits[f.sig] += 1
        else:
            shard.failures.append({"sig": f.sig, "what": "corpus file %s: %s" % (path, f.what), "replay": f.replay})
    shard.event("corpus_cases")
    return shard


def deep_worker(job):
    """Programs near the interpreter's resource limits (an expression nested around as deep as the point where the compiler reports 'nested too deeply'; such a program compiles in about a second):
    the verdict must not depend on what the process compiled before (e.g. through a recursion limit left raised by a rejected program)."""
    depth, known = job
    shard = Shard()
    src = 'out int n0 = 0;\nparser { "a"; n0 = [' + "1+(" * depth + "1" + ")" * depth + ']; }'
    rejected = ("parser { \"a\"; undefinedhook(); }", [])
    rejected2 = ("out int n0;\nparser { \"a\"; n1 = 3; }", ["-O3"])
    fine = ("parser { /(a|b)+c/; }", ["-O3"])
    try:
        check_program(shard, src, ["-O1"], [0x61, 0x62], [[rejected], [fine], [rejected, rejected2, fine]], max_len=2)
    except Failure as f:
        if f.sig in known:
            shard.known_hits[f.sig] += 1
        else:
            f.replay["source"] = "(expression nested %d deep)" % depth
            shard.failures.append({"sig": f.sig, "what": "expression nested %d deep: %s" % (depth, f.what.replace(src, "<source>")), "replay": dict(f.replay, depth=depth)})
    shard.event("deep_cases")
    return shard


# ------------------------------------------------------------------ names left behind by earlier compilations

LEAK_TARGETS = [
    ('out int v = 0;\nout int n = 0;\nparser { "x"; v = 7; "y"; }\n', ["-O1"]),
    ('out int n = 0;\nparser { loop lp { "a"; n = [n + 1]; if n == 2 { break lp; } } "z"; }\n', ["-O1"]),
    ('out int v = 0;\nhook h;\nmacro bump(out w) { w = 3; h(); }\nparser { "x"; bump(v); "y"; }\n', ["-O3"]),
    ('parser { loop { "a"; break nosuch; } }\n', []),
    ('out int n = 0;\nparser { "a"; n = bogus; "b"; }\n', []),
    ('out int n = 0;\nparser { "a"; finish; loop { "b"; break nosuch; } }\n', ["-O3"]),
    ('out str[4] v;\nhook h;\nparser { v += "xy"; h(); "y"; }\n', ["-O2"]),
    ('out int v = 0;\nmacro m(expr e, match k) { k; v = e; }\nparser { m(5, "x"); m([v + 1], "y"); }\n', []),
]
LEAK_HISTORY = [
    ('out int n = 0;\nmacro bump(out v) { v = bogus; }\nparser { bump(n); "a"; }\n', []),                       # rejected inside a macro expansion (out argument)
    ('parser { loop nosuch { "a"; break nosuch; } }\n', []),                                                       # accepted; defines a loop name
    ('hook v;\nout str[4] n;\nparser { "q"; v(); n += "r"; }\n', ["-O3"]),                                          # same names, other kinds
    ('out int k = 0;\nmacro m(expr v, match n) { n; undefinedhook(); }\nparser { m(5, "k"); }\n', []),            # rejected inside a macro expansion (expr / match arguments)
    ('out int k = 0;\nmacro q(expr bogus) { k = bogus; }\nparser { "a"; q(4); }\n', []),                          # accepted; parameter named like a later undefined name
    ('out int k = 0;\nmacro q(expr bogus, out w, hook h) { w = bogus; h(); nosuchmacro(); }\nhook g;\nparser { "a"; q(4, k, g); }\n', []),   # rejected with a full frame
    ('out int n = 0;\nparser { loop lp { loop nosuch { "a"; break lp; } } }\n', ["-O3"]),
    ('out int v = 0;\nmacro outer(out w) { inner(w); }\nmacro inner(out v) { v = 1; "a"; break nowhere; }\nparser { outer(v); }\n', []),   # rejected two expansions deep
]


def leak_worker(job):
    """Small programs over one shared vocabulary of names (v, n, lp, h, m, bogus, nosuch) compiled alone and after histories of accepted and
    rejected programs that bind the same names to other things (macro parameters of every kind, loop names, outputs of other types)."""
    ti, hist_ids, known = job
    shard = Shard()
    src, argv = LEAK_TARGETS[ti]
    hists = [[LEAK_HISTORY[i] for i in ids] for ids in hist_ids]
    try:
        check_program(shard, src, argv, [0x61, 0x78, 0x79, 0x7a], hists, max_len=4)
    except Failure as f:
        if f.sig in known:
            shard.known_hits[f.sig] += 1
        else:
            shard.failures.append({"sig": f.sig, "what": "target %d after histories %r: %s" % (ti, hist_ids, f.what), "replay": dict(f.replay, histories=hist_ids)})
    shard.event("leak_cases")
    return shard


def main(ctx):
    quick = ctx.tier == "quick"
    known = tuple(ctx.open_keys)
    nh = len(LEAK_HISTORY)
    singles = [[i] for i in range(nh)]
    pairs = [[i, j] for i in range(nh) for j in range(nh) if i != j]
    if quick:
        pairs = [p for k, p in enumerate(pairs) if (k + ctx.seed) % 7 == 0]
    jobs = []
    for ti in range(len(LEAK_TARGETS)):
        allh = singles + pairs
        for k in range(0, len(allh), 5):
            jobs.append((ti, allh[k:k + 5], known))
    ctx.pmap(leak_worker, jobs)
    ctx.pmap(deep_worker, [(d, known) for d in ((430, 580, 1200, 2000) if quick else (340, 380, 420, 460, 500, 540, 580, 640, 720, 800, 1000, 1400, 1700, 2000, 2400, 3000))])
    corpus = sorted(glob.glob(os.path.join(common.REPO, "example", "test", "*.ok.nmfu")))
    if quick:
        corpus = corpus[::3]
    ctx.pmap(corpus_worker, [(p, known) for p in corpus])
    n = 10 if quick else 200
    stop_at = time.time() + (75 if quick else 900)
    ctx.pmap(worker, [(ctx.seed * 100003 + i, n, known, stop_at) for i in range(common.NPROC)])
    ctx.rule = ("case = generated program (regex / case heavy) or corpus program, compiled in 6-8 fresh processes: PYTHONHASHSEED 0/1/2/random alone, "
                "after 1-3 other compilations (rejected ones and other flag sets included, kept alive or released), twice in a row, with heap "
                "perturbation; evaluations = child compilations. All must agree on verdict + error class and on the abstract machine's behaviour on "
                "every input up to length 4 over <= 5 byte-class representatives (C text compared after address normalisation). "
                "Plus 8 small targets over a shared vocabulary of names after every single and (a rotating 1/7 in the quick tier, all in the thorough tier) every ordered pair of 8 history programs - accepted and rejected, the latter failing inside macro expansions - that bind the same names otherwise. "
                "Plus programs with an expression nested 340-3000 deep (around the 'nested too deeply' threshold) after rejected / accepted histories. "
                "Non-trivial: program with set-iteration-prone constructs compared under >= 3 settings; distinct by source.")
    ctx.assumptions = ["behavioural equality is decided on vlib/am.py over short inputs; C text equality (after normalising addresses) is sufficient but not required",
                       "heap layout cannot be enumerated, only perturbed"]
    ctx.required_classes = ["programs", "corpus_cases", "deep_cases", "leak_cases"]


def replay(ctx, data):
    rp = data["replay"]
    print(rp["source"])
    print(rp["argv"], rp.get("setting"))
    return 0
