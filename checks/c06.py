"""
C06 - emitted C executes exactly the compiled state machine.

Per generated (program, option set):
  (1) exhaustive single step: every state index x every byte 0..255 and end-of-input x data contexts: the C
      binary (state forced, variables poked, one byte fed / end() called) against one AM dispatch;
  (2) guided multi-byte walks, one byte per call, compared after every call.
Compared exactly: return code, *start offset, state index afterwards, hook calls (name, inval, outputs seen),
outputs after the call.
"""
from hypothesis import strategies as st

import nmfu
from vlib import am as am_mod
from vlib import common, crun, front, gen, inputs, options, trace
from vlib.common import Failure, Shard

OST = nmfu.OutputStorageType


def contexts(machine, info, prog_cfg0):
    """Data contexts: list of (label, pokes) ; pokes: list of ('P', idx, value) | ('Q', idx, bytes)."""
    ctxs = [("start", [])]
    full, one, mixed = [], [], []
    for v in info.vars:
        o = v.out
        if o.type == OST.STR:
            cap = o.effective_string_size()
            full.append(("Q", v.idx, v.name, bytes([0x61 + (i % 3) for i in range(cap)])))
            one.append(("Q", v.idx, v.name, b"b"[:cap]))
            mixed.append(("Q", v.idx, v.name, bytes([0x80, 0x30][:cap])))
        elif o.type == OST.INT:
            t = machine.var_type(o)
            from vlib import carith
            lo, hi = carith.type_range(t)
            full.append(("P", v.idx, v.name, 1))
            one.append(("P", v.idx, v.name, hi))
            mixed.append(("P", v.idx, v.name, lo if lo < 0 else 3))
        elif o.type == OST.BOOL:
            full.append(("P", v.idx, v.name, 1))
            one.append(("P", v.idx, v.name, 0))
            mixed.append(("P", v.idx, v.name, 1))
        elif o.type == OST.ENUM:
            full.append(("P", v.idx, v.name, len(o.enum_values) - 1))
            one.append(("P", v.idx, v.name, 0))
            mixed.append(("P", v.idx, v.name, 1))
    if full:
        ctxs += [("full", full), ("one", one), ("mixed", mixed)]
    # one context per constant that a condition of the machine compares against: every integer variable holds that constant (clamped to its
    # type), so that each `n == K` / `n >= K` is taken both ways from every state and on every symbol, end-of-input included
    consts = condition_constants(machine)
    for kv in consts[:4]:
        pokes = []
        for v in info.vars:
            o = v.out
            if o.type == OST.INT:
                from vlib import carith
                lo, hi = carith.type_range(machine.var_type(o))
                pokes.append(("P", v.idx, v.name, min(max(kv, lo), hi)))
            elif o.type == OST.STR:
                cap = o.effective_string_size()
                pokes.append(("Q", v.idx, v.name, b"ab"[:cap]))
        if pokes:
            ctxs.insert(min(len(ctxs), 1 + 2 * len([c for c in ctxs if c[0].startswith("const")])), ("const%d" % kv, pokes))
    return ctxs


def condition_constants(machine):
    """Integer literals that occur in the conditions of the machine (condition points and conditional actions), most frequent first."""
    import collections
    found = collections.Counter()

    def scan(e, depth=0):
        if e is None or depth > 8:
            return
        if isinstance(e, nmfu.LiteralIntegerExpr):
            v = e.value
            if isinstance(v, bool):
                return
            if isinstance(v, int) and -(2 ** 31) < v < 2 ** 31:
                found[v] += 1
            return
        for attr in ("children", "left", "right", "expr", "index", "append_value"):
            c = getattr(e, attr, None)
            if isinstance(c, (list, tuple)):
                for x in c:
                    scan(x, depth + 1)
            elif c is not None and not isinstance(c, (str, int, bytes)):
                scan(c, depth + 1)

    def scan_action(a):
        for sub in a.all_subactions():
            if isinstance(sub, nmfu.ConditionalAction):
                for c in sub.conditions:
                    scan(getattr(c, "expr", None))

    for st_ in machine.states:
        for t in st_.transitions:
            if isinstance(t, nmfu.DFConditionalTransition):
                scan(getattr(t.condition, "expr", None))
            for a in t.actions:
                scan_action(a)
    return [k for k, _ in found.most_common() if k not in (0,)]


def apply_pokes(cfg, pokes):
    for p in pokes:
        if p[0] == "Q":
            cfg.vars[p[2]] = bytearray(p[3])
        else:
            cfg.vars[p[2]] = p[3]


def check_program(shard, prog, argv, choices_list, exhaustive=True, nctx=4):
    src = prog if isinstance(prog, str) else prog.source()
    out = front.compile_src(src, argv)
    shard.event("programs_generated")
    if not out.accepted:
        shard.event("rejected:" + out.kind)
        return
    comp = out.compiled
    shard.event("programs")
    replay = {"source": src, "argv": argv}
    m = am_mod.Machine(comp)
    try:
        cfg0, r0 = m.start()
    except am_mod.Undefined:
        shard.event("start_undefined")
        return
    if r0.code != 0:
        shard.event("finished_in_start")
        exhaustive = False      # the driver makes no calls after a terminal result
    try:
        binary = crun.Binary(comp)
    except crun.BuildError as e:
        raise Failure("c06:c-build-error", "generated C does not build:\n" + str(e)[-1500:], replay)
    info = binary.info
    try:
        # ---------------- (2) guided walks
        plans = []
        sc = crun.Script()
        for choices in choices_list:
            data = choices if isinstance(choices, (bytes, bytearray)) else inputs.guided_input(m, choices)
            if not data:
                continue
            # byte per call, the whole input in one call, and two halves: the C must follow the machine inside a chunk too
            half = len(data) // 2
            for chunks in ([data[i:i + 1] for i in range(len(data))], [data], [data[:half], data[half:]] if half else [data]):
                try:
                    want, _ = trace.am_calls(m, chunks, call_end=info.eof, indirect=info.indirect)
                except am_mod.Undefined:
                    shard.event("walk_undefined")
                    continue
                except am_mod.Spin:
                    shard.event("walk_spin_skipped")
                    continue
                plans.append((data, want))
                sc.b += trace.script_for(chunks, call_end=info.eof, move=True).b
        if plans:
            runs = run_driver(binary, sc, replay)
            for (data, want), run in zip(plans, runs):
                got = trace.c_calls(run)
                shard.event("evaluations")
                shard.event("walk_calls", len(got))
                d = trace.first_diff(want, got, with_state=True, with_off=info.indirect)
                if d:
                    raise Failure("c06:walk:" + classify(want, got, d[0]), "input=%s\n%s" % (data.hex(), d[1]),
                                  dict(replay, input=data.hex()))
        # ---------------- (1) exhaustive single step
        if exhaustive:
            ctxs = contexts(m, info, cfg0)[:nctx]
            plan = []
            sc = crun.Script()
            for label, pokes in ctxs:
                for k, state in enumerate(m.states):
                    for sym in list(range(256)) + (["END"] if info.eof else []):
                        cfg = cfg0.copy()
                        apply_pokes(cfg, pokes)
                        cfg.state = state
                        try:
                            if sym == "END":
                                res = m.end(cfg)
                                want = [trace._am_call("end", res, None, m, cfg)]
                            else:
                                want, _ = trace.am_calls(m, [bytes([sym])], indirect=info.indirect, cfg0=cfg)
                        except am_mod.Undefined:
                            shard.event("step_undefined")
                            continue
                        except am_mod.Spin:
                            shard.event("step_spin_skipped")
                            continue
                        except am_mod.Broken as e:
                            raise Failure("c06:machine-broken", "state %d sym %r: %s" % (k, sym, e), replay)
                        sc.start(move=False, snap=True)
                        for p in pokes:
                            if p[0] == "Q":
                                sc.poke_str(p[1], p[3])
                            else:
                                sc.poke(p[1], p[3])
                        sc.setstate(k)
                        if sym == "END":
                            sc.end()
                        else:
                            sc.feed(bytes([sym]))
                        sc.stop()
                        plan.append((label, k, sym, want))
            runs = run_driver(binary, sc, replay)
            if len(runs) != len(plan):
                raise common.HarnessError("run count mismatch")
            nontrivial_cond = any(isinstance(s, nmfu.DFConditionPoint) for s in m.states)
            for (label, k, sym, want), run in zip(plan, runs):
                got = trace.c_calls(run)[1:]     # drop the start call
                shard.event("evaluations")
                d = trace.first_diff(want, got, with_state=True, with_off=info.indirect)
                if d:
                    raise Failure("c06:step:" + classify(want, got, d[0]) + (":end" if sym == "END" else ""),
                                  "context=%s state=%d symbol=%r\n%s" % (label, k, sym, d[1]),
                                  dict(replay, context=label, state=k, symbol=sym))
            shard.event("steps", len(plan))
            if nontrivial_cond:
                shard.event("class:has_condition_point")
        nstates = len(m.states)
        has_overflow = any(isinstance(a, (nmfu.AppendTo, nmfu.AppendCharTo)) for s in m.states for t in s.transitions for a in t.actions)
        has_ft = any(t.is_fallthrough for s in m.states for t in s.transitions)
        if has_overflow:
            shard.event("class:has_overflow_action")
        if nstates >= 4 and has_ft:
            shard.nontriv(src + repr(argv))
        if len(shard.samples) < 2:
            shard.sample({"source": src, "argv": argv, "states": nstates, "walks": [p[0].hex() for p in plans[:3]]})
    finally:
        binary.close()


def run_driver(binary, sc, replay):
    rc, out, err = binary.run_raw(sc)
    if rc != 0:
        tail = out[-600:]
        kind = "hang" if rc == 3 else ("guard" if rc == 4 else "crash")
        raise Failure("c06:c-" + kind, "driver exit %s\nlast output:\n%s\nstderr:\n%s" % (rc, tail, err[-1200:]), replay)
    return crun.parse_log(out)


def classify(want, got, i):
    if i >= len(want) or i >= len(got):
        return "call-count"
    a, b = want[i], got[i]
    if a.code != b.code:
        return "code"
    if a.off != b.off:
        return "offset"
    if a.state != b.state:
        return "state"
    if a.hooks != b.hooks:
        return "hooks"
    return "outputs"


def gen_cfg(tier):
    return gen.GenConfig(max_depth=2, max_stmts=4)


@st.composite
def case_strategy(draw, tier):
    if draw(st.integers(0, 7)) == 0:
        from checks.c02 import yield_tail_program
        prog = draw(yield_tail_program())
        argv = list(prog.argv) + draw(options.codegen_options(indirect=True))
        choices = [list(bytes(draw(st.lists(st.sampled_from(list(b"abxcdqef")), min_size=2, max_size=6)))) for _ in range(4)]
        return prog, argv, [bytes(c) for c in choices]
    if draw(st.integers(0, 9)) == 0:
        # programs that really use `end` (statement, clause, handler, optional at the tail): end() is part of the emitted code too
        from checks.c17 import eof_program
        prog, argv = draw(eof_program(with_appendc=True))
        argv = argv + draw(options.codegen_options(indirect=None))
        choices = draw(st.lists(st.lists(st.integers(0, 4095), min_size=0, max_size=10), min_size=4, max_size=8))
        return prog, argv, choices
    fam = draw(st.integers(0, 9))
    if fam == 2:
        fam = 0
    if fam in (0, 1):
        # (with EOF support: end() in every state of the loop, with the break condition true and false)
        prog, datas = draw(gen.break_loop_program(eof=draw(st.booleans())) if fam == 0 else gen.last_foreach_program())
        argv = list(prog.argv) + draw(options.codegen_options(indirect=None))
        return prog, argv, datas[:10]
    mode = draw(st.sampled_from(["plain", "plain", "yield", "eof", "both"]))
    cfg = gen.GenConfig(max_depth=2, max_stmts=4, allow_yield=mode in ("yield", "both"), allow_end=mode in ("eof", "both"),
                        kinds={"yield": 2 if mode in ("yield", "both") else 0, "foreach": 2}, allow_last=True)
    prog = draw(gen.program(cfg))
    argv = list(prog.argv) + draw(options.codegen_options(indirect=True if mode in ("yield", "both") else None))
    choices = draw(st.lists(st.lists(st.integers(0, 4095), min_size=2, max_size=24), min_size=4, max_size=8))
    return prog, argv, choices


def worker(job):
    seed, n, known, tier, stop_at = job
    shard = Shard()

    def body(val):
        prog, argv, choices = val
        check_program(shard, prog, argv, choices, nctx=4 if tier == "quick" else 7)

    common.hyp_run(shard, body, case_strategy(tier), n, seed, known_keys=known, stop_at=stop_at)
    return shard


def regress_worker(job):
    path, known = job
    import json
    shard = Shard()
    with open(path) as fh:
        d = json.load(fh)
    try:
        choices = [bytes.fromhex(c) if isinstance(c, str) else c for c in d.get("choices", [[9, 9, 9, 9, 17, 25, 33]])]
        check_program(shard, d["source"], d["argv"], choices, nctx=7)
    except Failure as f:
        if f.sig in known:
            shard.known_hits[f.sig] += 1
        else:
            shard.failures.append({"sig": f.sig, "what": "regression case %s: %s" % (path, f.what), "replay": f.replay})
    shard.event("regression_cases")
    return shard


def main(ctx):
    import time, glob, os
    quick = ctx.tier == "quick"
    reg = sorted(glob.glob(os.path.join(common.VERIF_DIR, "regress", "C06", "*.json")))
    ctx.pmap(regress_worker, [(p, tuple(ctx.open_keys)) for p in reg])
    n = 40 if quick else 400
    stop_at = time.time() + (70 if quick else 900)
    ctx.pmap(worker, [(ctx.seed * 100003 + i, n, tuple(ctx.open_keys), ctx.tier, stop_at) for i in range(common.NPROC)])
    ctx.rule = ("case = (generated program, code-generation option set); per case every (state index, byte 0..255 / END, data context in "
                "{after start, strings full, strings 1 byte / ints max, mixed}) is executed once in the gcc-built C (state forced, outputs poked) and "
                "once in the abstract machine, plus guided byte-per-call walks. Non-trivial: machine with >= 4 states and a fallthrough transition; "
                "distinct by (source, argv). evaluations = compared executions.")
    ctx.exhaustive = False
    ctx.assumptions = ["AM (vlib/am.py) is the reference reading of the DFState/DFTransition/Action objects; disagreements are triaged by hand",
                       "forced (state, data) pairs whose AM execution is undefined (reads beyond stored length, signed overflow) are skipped and counted",
                       "scalars without default are zeroed by the driver"]
    ctx.required_classes = ["programs", "steps", "class:has_overflow_action"]


def replay(ctx, data):
    rp = data["replay"]
    print(rp["source"])
    print(rp["argv"])
    return 0
