"""
C19 - command-line options resolve to a consistent configuration.

Oracle: my own restatement of the resolution rules (reference model) + invariants on the real result.
Part A (exhaustive): all 3^11 {absent,on,off} assignments of the 11 flags that carry implies/exclusive
  metadata (or are the target of one) x -O0..3 x 3 argument orders, two spellings.
Part B (exhaustive): all 3^5 assignments of the optimisation flags x levels.
Part C (Hypothesis): free-form command lines incl. malformed elements; error channel must be RuntimeError.
"""
import itertools
import os

import nmfu
from hypothesis import strategies as st

from vlib import common
from vlib.common import Failure, Shard

PD = nmfu.ProgramData
PF = nmfu.ProgramFlag
PO = nmfu.ProgramOption


def related_flags():
    rel = set()
    for f in PF:
        if f.implies or f.exclusive_with:
            rel.add(f)
            for x in f.implies | f.exclusive_with:
                rel.add(PF(x))
    return sorted(rel, key=lambda f: f.value)


def opt_flags():
    out = []
    for lvl in sorted(PD._OPTIMIZE_LEVELS):
        out.extend(PD._OPTIMIZE_LEVELS[lvl])
    return out


def flagname(f):
    return f.name.replace("_", "-").lower()


def spell(f, on, style):
    n = flagname(f)
    if style == 0:
        return ["-f" + ("" if on else "no-") + n]
    if style == 1:
        return ["--flag", n + "=" + ("yes" if on else "no")]
    if style == 2:
        return ["--flag", n + "=" + ("on" if on else "off")]
    return ["--flag", n] if on else ["-fno-" + n]


# ------------------------------------------------------------------ reference model

class ModelError(Exception):
    pass


def closure(flags_on):
    res = set(flags_on)
    work = list(res)
    while work:
        f = work.pop()
        for x in f.implies:
            x = PF(x)
            if x not in res:
                res.add(x)
                work.append(x)
    return res


def model(level, explicit):
    """explicit: dict flag -> bool (last setting per flag). Returns dict flag->bool or raises ModelError."""
    cfg = {f: bool(f.default) for f in PF}
    for j in range(level + 1):
        for f in PD._OPTIMIZE_LEVELS.get(j, ()):
            cfg[f] = True
    for f, v in explicit.items():
        cfg[f] = v
    on = closure(f for f, v in cfg.items() if v)
    requested = closure(f for f, v in explicit.items() if v)
    for f in requested:
        for c in f.exclusive_with:
            if PF(c) in requested:
                raise ModelError("conflict %s / %s" % (f.name, PF(c).name))
    for f in requested:
        for c in f.exclusive_with:
            on.discard(PF(c))
    return {f: (f in on) for f in PF}


def run_real(argv):
    """Returns ('ok', cfg, opts) | ('rterr', msg) | ('exc', type name, repr)"""
    try:
        PD.load_commandline_flags(list(argv))
    except RuntimeError as e:
        return ("rterr", str(e))
    except SystemExit as e:
        return ("exit", repr(e.code))
    except Exception as e:  # noqa: BLE001
        return ("exc", type(e).__name__, repr(e))
    return ("ok", {f: bool(PD.do(f)) for f in PF}, {o: PD.option(o) for o in PO})


def invariants(cfg, level, explicit):
    """Property-level invariants on an accepted configuration; returns list of problems."""
    bad = []
    for f, v in cfg.items():
        if v:
            for x in f.implies:
                if not cfg[PF(x)]:
                    bad.append("implied flag off: %s on but %s off" % (f.name, PF(x).name))
            for x in f.exclusive_with:
                if cfg[PF(x)]:
                    bad.append("exclusive flags both on: %s and %s" % (f.name, PF(x).name))
    on_by_impl = closure(f for f, v in cfg.items() if v)
    for f, v in explicit.items():
        if v and not cfg[f]:
            bad.append("explicitly enabled flag ended up off: " + f.name)
        if not v and cfg[f]:
            # only legitimate reason: implied by another flag that is on
            if not any(f.value in g.implies for g in on_by_impl if g is not f and cfg[g]):
                bad.append("explicitly disabled flag ended up on: " + f.name)
    for j in range(level + 1):
        for f in PD._OPTIMIZE_LEVELS.get(j, ()):
            if f not in explicit and not cfg[f]:
                bad.append("level %d does not enable %s" % (level, f.name))
    return bad


def diff_cfg(a, b):
    return sorted(f.name for f in PF if a[f] != b[f])


def check_one(shard, level, assignment, flags, order, style_base, tag):
    """assignment: tuple over flags of 0 absent / 1 on / 2 off"""
    explicit = {}
    toks = []
    for i, (f, a) in enumerate(zip(flags, assignment)):
        if a == 0:
            continue
        explicit[f] = (a == 1)
        toks.append(spell(f, a == 1, (style_base + i) % 4))
    if order == 1:
        toks.reverse()
    elif order == 2 and toks:
        k = (sum(assignment) + (level or 0)) % len(toks)
        toks = toks[k:] + toks[:k]
    argv = [x for t in toks for x in t]
    lv = ["-O%d" % level] if level is not None else []
    pos = (sum(assignment)) % (len(toks) + 1)
    flat = [x for t in toks[:pos] for x in t] + lv + [x for t in toks[pos:] for x in t]
    # filename position varies too
    argv = flat + ["in.nmfu"] if (sum(assignment) % 2) else ["in.nmfu"] + flat
    real = run_real(argv)
    shard.event("evaluations")
    eff_level = 1 if level is None else level
    try:
        want = model(eff_level, explicit)
    except ModelError as me:
        shard.event(tag + ":model_error")
        if real[0] != "rterr":
            raise Failure("c19:conflict-not-reported:" + str(me), "argv=%r: expected RuntimeError (%s), got %r" % (argv, me, real[:2]),
                          {"argv": argv})
        return
    if real[0] != "ok":
        raise Failure("c19:spurious-error:" + real[0] + ":" + (real[1] if real[0] == "exc" else ""),
                      "argv=%r: model accepts, real gives %r" % (argv, real), {"argv": argv})
    cfg = real[1]
    bad = invariants(cfg, eff_level, explicit)
    if bad:
        raise Failure("c19:invariant:" + bad[0].split(":")[0], "argv=%r: %s" % (argv, "; ".join(bad)), {"argv": argv})
    if cfg != want:
        raise Failure("c19:model-mismatch:" + ",".join(diff_cfg(cfg, want)[:3]),
                      "argv=%r: differs from reference model on %s" % (argv, diff_cfg(cfg, want)), {"argv": argv})
    nset = sum(1 for a in assignment if a)
    if nset >= 2:
        shard.event("nontrivial_enumerated")   # distinct by construction: the enumeration never repeats a case
    if nset >= 2 and len(shard.samples) < 3 and (sum(assignment) % 97 == 5):
        shard.sample({"argv": argv, "on": sorted(f.name for f, v in cfg.items() if v and (f in flags))})


def exhaustive_worker(job):
    tag, prefix, nrest, orders, levels = job
    shard = Shard()
    flags = related_flags() if tag == "related" else opt_flags()
    try:
        for rest in itertools.product(range(3), repeat=nrest):
            assignment = tuple(prefix) + rest
            for level in levels:
                for order in orders:
                    check_one(shard, level, assignment, flags, order, (level or 0) + order, tag)
        # level monotonicity without explicit flags is implied by model equality; counted here
    except Failure as f:
        shard.failures.append({"sig": f.sig, "what": f.what, "replay": f.replay})
    return shard


# ------------------------------------------------------------------ part C: free-form command lines

GOOD, BAD, SOFT = "good", "bad", "soft"

ALL_FLAGS = list(PF)


def el_flag():
    return st.tuples(st.sampled_from(ALL_FLAGS), st.booleans(), st.integers(0, 3)).map(
        lambda t: (GOOD, spell(t[0], t[1], t[2]), ("flag", t[0], t[1])))


def el_level():
    return st.integers(0, 3).map(lambda k: (GOOD, ["-O%d" % k], ("level", k)))


def el_option():
    nums = [PO.MAX_SHORTCIRCUIT_FALLTHROUGH, PO.MAX_SHORTCIRCUIT_ACTION_PENALTY, PO.COLLAPSED_RANGE_LENGTH,
            PO.DEBUG_DFA_HIDE_THRESHOLD]
    good = st.tuples(st.sampled_from(nums), st.integers(0, 50)).map(
        lambda t: (GOOD, ["--" + t[0].name.replace("_", "-").lower(), str(t[1])], ("opt", t[0], t[1])))
    bad = st.tuples(st.sampled_from(nums), st.sampled_from(["x", "", "1.5", "0x10", "ten"])).map(
        lambda t: (BAD, ["--" + t[0].name.replace("_", "-").lower(), t[1]], ("badopt",)))
    return st.one_of(good, bad)


def el_misc_good():
    return st.sampled_from([
        (GOOD, ["-t"], ("misc",)), (GOOD, ["--dry-run"], ("misc",)), (GOOD, ["-oout"], ("misc",)),
        (GOOD, ["--output", "out2"], ("misc",)), (GOOD, ["--dump-prefix", "pre"], ("misc",)),
        (GOOD, ["-ddfa"], ("misc",)), (GOOD, ["--dump", "ast,dfa"], ("misc",)), (GOOD, ["-dtraceback"], ("misc",)),
        (GOOD, [""], ("misc",)),
    ])


def el_bad():
    names = st.sampled_from(["nonexistent", "hook-globall", "O3", "", "no-", "yield_support!", "eof support"])
    return st.one_of(
        names.map(lambda n: (BAD, ["-f" + n], ("unknown-flag",))),
        names.map(lambda n: (BAD, ["--flag", n + "=yes"], ("unknown-flag",))),
        st.sampled_from(["bogus", "max-shortcircuit", "Output", "optimize"]).map(lambda n: (BAD, ["--" + n, "1"], ("unknown-option",))),
        st.sampled_from(["-Ox", "-O", "-O1.5", "-O2x"]).map(lambda s: (BAD, [s], ("bad-level",))),
        st.sampled_from(["-O4", "-O9", "-O17"]).map(lambda s: (SOFT, [s], ("high-level",))),
        st.sampled_from(["-O-1", "-O-3"]).map(lambda s: (BAD, [s], ("neg-level",))),
        st.sampled_from(["eof-support=maybe", "eof-support=ON", "eof-support=", "yield-support=2", "hook-global=nope"]).map(lambda s: (BAD, ["--flag", s], ("bad-flag-value",))),
        st.sampled_from(["-tjunk", "-t1", "-t-O3"]).map(lambda s: (BAD, [s], ("junk-after-switch",))),
        st.sampled_from(["eof-support=yes=no", "a=b=c", "=="]).map(lambda s: (BAD, ["--flag", s], ("multi-eq",))),
        st.sampled_from(["-dfoo", "-d", "-ddfa,bar", "--dump=dfa"]).map(
            lambda s: (BAD, [s] if not s.startswith("--") else [s, "x"], ("bad-dump",))),
        st.just((BAD, ["--dump", "nope"], ("bad-dump",))),
        st.sampled_from(["-", "-X", "-Zfoo", "-q"]).map(lambda s: (BAD, [s], ("bad-short",))),
        st.just((SOFT, ["-oa.b"], ("bad-output",))),
        st.just((GOOD, ["second.nmfu"], ("file",))),
    )


def cmdline():
    el = st.one_of(el_flag(), el_flag(), el_level(), el_option(), el_misc_good(), el_bad())
    return st.tuples(st.lists(el, min_size=0, max_size=8), st.integers(0, 8), st.booleans(),
                     st.sampled_from([None, "--dump-prefix", "--flag", "--output", "--collapsed-range-length"]))


def free_form_body(shard):
    def body(val):
        els, fpos, with_file, dangling = val
        argv = []
        explicit = {}
        level = 1
        klass = GOOD
        opts = {o: o.default for o in PO}
        toks = [e[1] for e in els]
        fpos = min(fpos, len(toks))
        if with_file:
            toks.insert(fpos, ["in.nmfu"])
        for t in toks:
            argv.extend(t)
        for k, t, info in els:
            if k == BAD:
                klass = BAD
            elif k == SOFT and klass != BAD:
                klass = SOFT
            if info[0] == "flag":
                explicit[info[1]] = info[2]
            elif info[0] == "level":
                level = info[1]
            elif info[0] == "opt":
                opts[info[1]] = info[2]
        nfiles = int(with_file) + sum(1 for e in els if e[2][0] == "file")
        if nfiles != 1:
            klass = BAD
        if dangling is not None:
            argv.append(dangling)
            klass = BAD
        # a good element that is swallowed as the *value* of a preceding bad long option can change
        # classification only towards "still an error" -> BAD stays BAD.
        prev = run_real(["-O3", "-fyield-support", "leak.nmfu"])  # state that must not leak into the next call
        assert prev[0] == "ok"
        real = run_real(argv)
        shard.event("evaluations")
        shard.event("freeform:" + klass)
        for k, t, info in els:
            if k != GOOD:
                shard.event("freeform-el:" + info[0])
        if real[0] == "exc":
            raise Failure("c19:wrong-error-channel:" + real[1], "argv=%r raised %s (%s), not RuntimeError" % (argv, real[1], real[2]),
                          {"argv": argv})
        if real[0] == "exit":
            raise Failure("c19:unexpected-exit", "argv=%r exited" % (argv,), {"argv": argv})
        if klass == BAD:
            if real[0] != "rterr":
                raise Failure("c19:malformed-accepted", "argv=%r contains an unknown/malformed element but was accepted" % (argv,),
                              {"argv": argv})
            shard.nontriv("bad|" + repr(argv))
            return
        if klass == SOFT:
            return
        try:
            want = model(level, explicit)
        except ModelError as me:
            if real[0] != "rterr":
                raise Failure("c19:conflict-not-reported:" + str(me), "argv=%r" % (argv,), {"argv": argv})
            return
        if real[0] != "ok":
            raise Failure("c19:spurious-error:" + real[0], "argv=%r: %r" % (argv, real), {"argv": argv})
        bad = invariants(real[1], level, explicit)
        if bad:
            raise Failure("c19:invariant:" + bad[0].split(":")[0], "argv=%r: %s" % (argv, bad), {"argv": argv})
        if real[1] != want:
            raise Failure("c19:model-mismatch:" + ",".join(diff_cfg(real[1], want)[:3]),
                          "argv=%r (possibly state leak) differs on %s" % (argv, diff_cfg(real[1], want)), {"argv": argv})
        if real[2] != opts:
            raise Failure("c19:option-value", "argv=%r options %r != %r" % (argv, real[2], opts), {"argv": argv})
        if len(explicit) >= 2:
            shard.nontriv("good|" + repr(argv))
        if len(shard.samples) < 2 and len(argv) > 5:
            shard.sample({"argv": argv, "on": sorted(f.name for f, v in real[1].items() if v)})
    return body


def freeform_worker(job):
    seed, n, known = job
    shard = Shard()
    common.hyp_run(shard, free_form_body(shard), cmdline(), n, seed, known_keys=known)
    return shard


# ------------------------------------------------------------------ regression replays of fixed findings

FIXED_REPLAYS = [
    ["-O4", "x.nmfu"], ["-Ox", "x.nmfu"], ["-O", "x.nmfu"], ["--flag", "a=b=c", "x.nmfu"], ["-dfoo", "x.nmfu"],
    ["-d", "x.nmfu"],
]


def main(ctx):
    quick = ctx.tier == "quick"
    rel = related_flags()
    if len(rel) != 11:
        ctx.total.notes.append("note: %d related flags (design assumed 11)" % len(rel))
    ctx.rule = ("A: every {absent,on,off} assignment of the %d implies/exclusive-related flags x -O0..3 x argument orders "
                "(exhaustive); B: same for the optimisation flags; C: Hypothesis command lines with malformed elements. "
                "Non-trivial: >=2 flags set (distinct by assignment, level, order) or a malformed command line." % len(rel))
    orders = (0, 1) if quick else (0, 1, 2)
    jobs = [("related", p, len(rel) - 3, orders, (0, 1, 2, 3)) for p in itertools.product(range(3), repeat=3)]
    of = opt_flags()
    jobs += [("opt", p, len(of) - 1, (0, 1, 2), (None, 0, 1, 2, 3)) for p in itertools.product(range(3), repeat=1)]
    ctx.pmap(exhaustive_worker, jobs)
    ctx.exhaustive = True
    n = 400 if quick else 6000
    known = tuple(ctx.open_keys)
    ctx.pmap(freeform_worker, [(ctx.seed * 100003 + i, n, known) for i in range(common.NPROC)])
    # regression part: previously fixed malformed lines
    sh = Shard()
    for argv in FIXED_REPLAYS:
        r = run_real(argv)
        sh.event("evaluations")
        if r[0] == "exc":
            sh.failures.append({"sig": "c19:wrong-error-channel:" + r[1], "what": "argv=%r raised %s" % (argv, r[1]),
                                "replay": {"argv": argv}})
    ctx.total.merge(sh)
    ctx.total.extra["exhaustive_part"] = "3^%d x 4 levels x %d orders; 3^%d x 5 levels x 3 orders" % (len(rel), len(orders), len(of))
    ctx.assumptions = ["flag metadata (implies / exclusive_with / level table) is read from nmfu and taken as given; the check is about resolution",
                       "-O levels outside 0..3 may be an error or clamped, but never a non-RuntimeError exception"]
    ctx.required_classes = ["related:model_error", "freeform:bad", "freeform:good"]


def replay(ctx, data):
    argv = data["replay"]["argv"]
    print("argv:", argv)
    r = run_real(argv)
    print("real:", r[:2] if r[0] == "ok" else r)
    return 0
