"""
C05 - optimisation levels and flags never change parser behaviour.

Baseline = the same source compiled with -O0 and every optimisation flag explicitly off.  Each other
configuration (-O1..-O3, single flags toggled, random flag subsets, thresholds) must
  (a) have the same accept/reject verdict,
  (b) produce, on *every* input up to length L over the program's byte-class representatives, the same sequence of
      appends / assignments / deletes / hooks (with the outputs they see) / breaks / out-of-space transfers / yields
      (code and pointer exact) / terminal result, where an event may sit in a neighbouring call (the documented
      one-position slack) - joint walk of two abstract machines,
  (c) behave the same in the gcc-built C on guided inputs (hooks with visible outputs, yields, terminal, final outputs).
"""
import glob
import json
import os
import time

from hypothesis import strategies as st

from vlib import am as am_mod
from vlib import common, crun, front, gen, inputs, ir, trace, walk
from vlib.common import Failure, Shard

OPT_FLAGS = ["simplify-else-conditions", "remove-inaccesible-states", "use-delete-for-empty-string",
             "shortcircuit-fallthroughs", "collapse-transition-ranges"]
BASE = ["-O0"] + ["-fno-" + f for f in OPT_FLAGS]


def machine_shape(comp):
    return (len(comp.dfa.states), sum(len(s.transitions) for s in comp.dfa.states),
            sum(len(t.actions) for s in comp.dfa.states for t in s.transitions),
            sum(1 for s in comp.dfa.states for t in s.transitions if t.is_fallthrough))


def c_timeline(calls, info):
    tl = walk.Timeline()
    k = -1
    for c in calls:
        if c.kind == "start":
            k = -1
        elif c.kind == "feed":
            pass
        elif c.kind in ("end", "free"):
            continue
        else:
            tl.events.append((k, c.kind, ()))
            break
        for h in c.hooks:
            tl.events.append((k if c.kind == "start" else k, "hook", (h[0], h[2])))
        if c.kind == "feed":
            if info.is_yield(c.code):
                tl.events.append((k, "yield", (c.code, c.off)))
                tl.final = c.vars
                continue
            if info.is_terminal(c.code) and tl.terminal is None:
                tl.terminal = (k, c.code)
                tl.final = c.vars
                break
        elif c.code != 0 and tl.terminal is None:
            tl.terminal = (-1, c.code)
            tl.final = c.vars
            break
        tl.final = c.vars
        if c.kind == "feed":
            k += 1
        else:
            k = 0
    return tl


def c_timeline_bytes(calls, info):
    """Byte-per-call C trace -> Timeline (call index = byte index)."""
    tl = walk.Timeline()
    k = -1
    for c in calls:
        if c.kind in ("HANG", "YIELDSPIN", "GUARD-CORRUPT"):
            tl.events.append((k, c.kind, ()))
            break
        if c.kind not in ("start", "feed"):
            continue
        kk = -1 if c.kind == "start" else k
        for h in c.hooks:
            tl.events.append((kk, "hook", (h[0], h[2])))
        tl.final = c.vars
        if c.kind == "start":
            if c.code != 0:
                tl.terminal = (-1, c.code)
                break
            k = 0
            continue
        if info.is_yield(c.code):
            tl.events.append((k, "yield", (c.code,)))
            continue
        if info.is_terminal(c.code):
            tl.terminal = (k, c.code)
            break
        k += 1
    tl.ncalls = max(k, 0)
    return tl


def check_program(shard, prog, base_extra, configs, choices_list, max_len=5, alphabet=None, do_c=True):
    src = prog if isinstance(prog, str) else prog.source()
    replay = {"source": src, "base": BASE + base_extra, "configs": configs}
    shard.event("programs_generated")
    base = front.compile_src(src, BASE + base_extra)
    comps = []
    for cfgv in configs:
        o = front.compile_src(src, cfgv + base_extra)
        if o.kind == "crash" and base.kind == "crash":
            shard.event("crash_in_all_configs")       # not an optimisation matter (C18's business)
            return
        if o.kind == "crash" or base.kind == "crash":
            raise Failure("c05:compiler-crash", "base=%r config %r -> %r" % (base, cfgv, o), replay)
        if o.accepted != base.accepted:
            raise Failure("c05:verdict-differs", "baseline %r but %r gives %r" % (base, cfgv, o), replay)
        comps.append(o.compiled)
    if not base.accepted:
        shard.event("rejected")
        return
    shard.event("programs")
    mb = am_mod.Machine(base.compiled)
    ms = [am_mod.Machine(c) for c in comps]
    shape0 = machine_shape(base.compiled)
    changed = [machine_shape(c) != shape0 for c in comps]
    if alphabet is None:
        if isinstance(prog, str):
            good, err = inputs.next_labels(mb, mb.dfa.starting_state, limit=400)
            alphabet = (good + [0x7a])[:6]
        else:
            alphabet = walk.representatives(ir.byte_alphabet(prog), cap=5)
            if 0x7a not in alphabet:
                alphabet.append(0x7a)
    # ---------- (b) joint walks
    for cfgv, m, ch in zip(configs, ms, changed):
        def visit(word, tls, cfgs, cfgv=cfgv, m=m):
            shard.event("evaluations")
            d = walk.compare(tls[0], tls[1], True, len(word))
            if d:
                raise Failure("c05:am:" + d[0], "config %r vs baseline on input %s: %s\nbaseline events=%r\nconfig events=%r"
                              % (cfgv, word.hex(), d[1], tls[0].events[-6:], tls[1].events[-6:]), dict(replay, config=cfgv, input=word.hex()))
            if mb.eof and tls[0].terminal is None and tls[1].terminal is None:
                # end of input at this point: same result code, same actions, same outputs
                try:
                    ca, cb = cfgs[0].copy(), cfgs[1].copy()
                    ra, rb = mb.end(ca), m.end(cb)
                except (am_mod.Undefined, am_mod.Spin):
                    return
                shard.event("end_calls")
                # (assigning the empty string and deleting are the same effect: -fuse-delete-for-empty-string, as in walk.absorb)
                kind_of = lambda e: "delete" if (e[0] == "setstr" and e[2] == b"") else e[0]
                ea = [(kind_of(e), walk.payload_of(e)) for e in ra.events if e[0] in walk.OBSERVABLE]
                eb = [(kind_of(e), walk.payload_of(e)) for e in rb.events if e[0] in walk.OBSERVABLE]
                # events that one side already performed eagerly with the last byte are not repeated at end(): compare the totals
                ta = [(k_, p_) for _, k_, p_ in tls[0].events] + ea
                tb = [(k_, p_) for _, k_, p_ in tls[1].events] + eb
                if ra.code != rb.code or ta != tb or (ra.code != 1 and ca.frozen_vars() != cb.frozen_vars()):
                    raise Failure("c05:am:end-differs", "config %r vs baseline on input %s then end(): code %d vs %d\nbaseline events=%r\nconfig events=%r"
                                  % (cfgv, word.hex(), ra.code, rb.code, ta[-5:], tb[-5:]), dict(replay, config=cfgv, input=word.hex(), end=True))
        try:
            stats = walk.joint_walk([mb, m], alphabet, max_len, visit, node_cap=4000)
        except am_mod.Undefined:
            shard.event("start_undefined")
            return
        except am_mod.Broken as e:
            raise Failure("c05:machine-broken", "config %r: %s" % (cfgv, e), dict(replay, config=cfgv))
        shard.event("walk_nodes", stats["nodes"])
        shard.event("walk_undefined", stats["undefined"])
        if ch:
            shard.event("class:machine_changed")
    if any(changed):
        shard.nontriv(src)
    # ---------- (c) C differential on guided inputs
    if do_c and choices_list:
        datas = []
        for chs in choices_list:
            d = chs if isinstance(chs, (bytes, bytearray)) else inputs.guided_input(mb, chs, max_len=20)
            if not d:
                continue
            try:
                trace.am_calls(mb, [d[j:j + 1] for j in range(len(d))], indirect=base.compiled.do("INDIRECT_START_PTR"))
            except (am_mod.Undefined, am_mod.Spin):
                continue
            datas.append(bytes(d))
        if datas:
            # byte sweep: after up to six prefixes of the guided inputs every byte value once (range checks, collapsed ranges and sparse
            # sets are rendered differently per option set; one representative per class would not see a single dropped value)
            sweep = []
            cuts = []
            for d in datas[:2]:
                for cut in sorted(set([0, len(d) // 2, max(0, len(d) - 1)] + list(range(1, min(len(d), 4))))):
                    if (d[:cut]) not in [c for c in cuts]:
                        cuts.append(d[:cut])
            for pre in cuts[:6]:
                d, cut = pre, len(pre)
                for b in range(256):
                    w = d[:cut] + bytes([b])
                    try:
                        trace.am_calls(mb, [w[j:j + 1] for j in range(len(w))], indirect=base.compiled.do("INDIRECT_START_PTR"))
                    except (am_mod.Undefined, am_mod.Spin):
                        continue
                    sweep.append(w)
            shard.event("sweep_inputs", len(sweep))
            datas = datas + sweep
            bins = []
            try:
                for i, c in enumerate([base.compiled] + comps):
                    try:
                        bins.append(crun.Binary(c, tag="c%d" % i))
                    except crun.BuildError as e:
                        raise Failure("c05:c-build-error", "config %r: %s" % ((["base"] + configs)[i], str(e)[-1000:]), replay)
                tls = []
                for b in bins:
                    sc = crun.Script()
                    for d in datas:
                        sc.b += trace.script_for([d[j:j + 1] for j in range(len(d))], call_end=False, call_free=b.info.dynmem, move=False).b
                    rc, outp, err = b.run_raw(sc)
                    if rc != 0:
                        raise Failure("c05:c-crash" if rc != 3 else "c05:c-hang", "driver exit %s\n%s\n%s" % (rc, outp[-300:], err[-600:]), replay)
                    tls.append([c_timeline_bytes(trace.c_calls(r), b.info) for r in crun.parse_log(outp)])
                for i in range(1, len(tls)):
                    for d, ta, tb in zip(datas, tls[0], tls[i]):
                        shard.event("evaluations")
                        shard.event("c_runs")
                        dd = walk.compare(ta, tb, True, len(d))
                        if dd:
                            raise Failure("c05:c:" + dd[0], "config %r vs baseline (C binaries) on input %s: %s" % (configs[i - 1], d.hex(), dd[1]),
                                          dict(replay, config=configs[i - 1], input=d.hex()))
            finally:
                for b in bins:
                    b.close()
    if len(shard.samples) < 2 and any(changed):
        shard.sample({"source": src, "configs": configs, "shapes": [shape0] + [machine_shape(c) for c in comps], "alphabet": alphabet})


@st.composite
def config_st(draw):
    k = draw(st.integers(0, 5))
    if k <= 2:
        cfgv = ["-O%d" % (k + 1)]
        if draw(st.booleans()):
            f = draw(st.sampled_from(OPT_FLAGS))
            cfgv.append(("-fno-" if draw(st.booleans()) else "-f") + f)
    else:
        cfgv = ["-O0"] + [("-f" if draw(st.booleans()) else "-fno-") + f for f in OPT_FLAGS]
    if draw(st.integers(0, 2)) == 0:
        cfgv += ["--max-shortcircuit-fallthrough", str(draw(st.sampled_from([0, 1, 2, 20])))]
    if draw(st.integers(0, 3)) == 0:
        cfgv += ["--max-shortcircuit-action-penalty", str(draw(st.sampled_from([0, 1, 3])))]
    if draw(st.integers(0, 3)) == 0:
        cfgv += ["--collapsed-range-length", str(draw(st.sampled_from([0, 1, 2, 4, 6])))]
    return cfgv


@st.composite
def case_strategy(draw):
    mode = draw(st.sampled_from(["plain", "plain", "plain", "yield", "eof", "eof", "const-branch"]))
    if mode == "const-branch":
        prog, datas = draw(gen.const_branch_program())
        configs = [["-O3"], ["-O1"]] + [draw(config_st())]
        return prog, [], configs, datas
    if mode == "eof":
        from checks.c17 import eof_program
        prog, argv = draw(eof_program())
        prog.argv = argv
        base_extra = ["-feof-support"]
        configs = [["-O3"]] + [draw(config_st()) for _ in range(draw(st.integers(1, 2)))]
        choices = draw(st.lists(st.lists(st.integers(0, 4095), min_size=2, max_size=20), min_size=1, max_size=2))
        return prog, base_extra, configs, choices
    cfg = gen.GenConfig(max_depth=2, max_stmts=5, allow_yield=(mode == "yield"), allow_end=(mode == "eof"),
                        kinds={"yield": 2 if mode == "yield" else 0, "try": 4, "case": 4, "if": 3, "ifact": 2, "loop": 3, "hook": 3,
                               "assignstr": 2, "optional": 3}, wide_bytes=0.05, const_conditions=4)
    prog = draw(gen.program(cfg))
    base_extra = [a for a in prog.argv if not a.startswith("-O")]
    configs = [["-O3"]] + [draw(config_st()) for _ in range(draw(st.integers(1, 2)))]
    choices = draw(st.lists(st.lists(st.integers(0, 4095), min_size=2, max_size=20), min_size=1, max_size=3))
    return prog, base_extra, configs, choices


def worker(job):
    seed, n, known, stop_at, max_len = job
    shard = Shard()

    def body(val):
        prog, base_extra, configs, choices = val
        check_program(shard, prog, base_extra, configs, choices, max_len=max_len)

    common.hyp_run(shard, body, case_strategy(), n, seed, known_keys=known, stop_at=stop_at)
    return shard


def regress_worker(job):
    path, known = job
    shard = Shard()
    with open(path) as fh:
        d = json.load(fh)
    try:
        check_program(shard, d["source"], d.get("base_extra", []), d["configs"], [bytes.fromhex(x) for x in d.get("inputs", [])],
                      max_len=d.get("max_len", 4), alphabet=d.get("alphabet"))
    except Failure as f:
        if f.sig in known:
            shard.known_hits[f.sig] += 1
        else:
            shard.failures.append({"sig": f.sig, "what": "regression case %s: %s" % (path, f.what), "replay": f.replay})
    shard.event("regression_cases")
    return shard


def corpus_worker(job):
    path, known = job
    shard = Shard()
    import shlex
    src = open(path).read()
    first = src.splitlines()[0] if src else ""
    args = shlex.split(first[len("// args: "):]) if first.startswith("// args: ") else []
    base_extra = [a for a in args if not a.startswith("-O")]
    try:
        check_program(shard, src, base_extra, [["-O1"], ["-O2"], ["-O3"]], [], max_len=4, do_c=False)
    except Failure as f:
        if f.sig in known:
            shard.known_hits[f.sig] += 1
        else:
            shard.failures.append({"sig": f.sig, "what": "corpus file %s: %s" % (path, f.what), "replay": f.replay})
    shard.event("corpus_files")
    return shard


def main(ctx):
    quick = ctx.tier == "quick"
    known = tuple(ctx.open_keys)
    corpus = sorted(glob.glob(os.path.join(common.REPO, "example", "test", "*.ok.nmfu")))
    ctx.pmap(corpus_worker, [(p, known) for p in corpus])
    reg = sorted(glob.glob(os.path.join(common.VERIF_DIR, "regress", "C05", "*.json")))
    ctx.pmap(regress_worker, [(p, known) for p in reg])
    n = 40 if quick else 800
    stop_at = time.time() + (75 if quick else 900)
    ctx.pmap(worker, [(ctx.seed * 100003 + i, n, known, stop_at, 4 if quick else 6) for i in range(common.NPROC)])
    ctx.rule = ("case = (generated program, 2-3 optimisation configurations incl. -O3); per configuration a joint walk of the baseline and the "
                "optimised abstract machine over every input up to length 4 (quick) / 6 (thorough) over <= 6 byte-class representatives "
                "(evaluations = walk nodes + C runs), plus gcc-built binaries of every configuration on guided inputs. Non-trivial: the optimised "
                "machine differs structurally (states / transitions / actions / fallthroughs) from the baseline; distinct by source.")
    ctx.assumptions = ["baseline = -O0 with all five optimisation flags off", "events may differ by one call position (language reference slack); order, multiplicity and values are exact",
                       "hook inval is not compared between optimisation levels (may legitimately shift by one byte)"]
    ctx.required_classes = ["programs", "class:machine_changed", "c_runs"]


def replay(ctx, data):
    rp = data["replay"]
    print(rp["source"])
    print(rp.get("base"), rp.get("configs"), rp.get("input"))
    return 0
