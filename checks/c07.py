"""
C07 - a compiled regular expression accepts exactly its language.

For each regex AST (exhaustive small ASTs + Hypothesis larger ones, text and binary spelling) the program
`parser { <regex>; }` is compiled and its machine is compared with the independently built derivative automaton
by product search over all 256 bytes + end-of-input: same acceptance in every reachable pair, a mismatch exactly
where the derivative is empty, end-of-input never matched by a data class.  Witnesses are shortest; the witness
word is then run through the C binary for the report.
"""
import glob
import itertools
import json
import os
import time

from hypothesis import strategies as st

from vlib import common, crun, dfawalk, front, gen, rx
from vlib.common import Failure, Shard

LEAVES_TEXT = [("lit", 0x61), ("lit", 0x62), ("any",), ("set", (("c", 0x61),), True), ("cls", "w")]
LEAVES_BIN = [("lit", 0x61), ("lit", 0x62), ("any",), ("set", (("c", 0x61),), True), ("set", (("r", 0x00, 0x7f),), True)]


def enumerate_asts(n, leaves):
    """All ASTs with exactly n nodes."""
    if n == 1:
        return list(leaves)
    out = []
    for sub in enumerate_asts(n - 1, leaves):
        for op in "*+?":
            out.append(("op", sub, op))
    for k in range(1, n - 1):
        for l in enumerate_asts(k, leaves):
            for r in enumerate_asts(n - 1 - k, leaves):
                out.append(("seq", (l, r)))
                out.append(("alt", (l, r)))
    return out


def check_regex(shard, r, binary, argv=("-O1",), confirm_c=True):
    try:
        src_re = rx.to_source(r, binary)
    except rx.Unspellable:
        shard.event("unspellable")
        return
    src = "parser {\n    %s;\n}\n" % src_re
    replay = {"source": src, "argv": list(argv), "regex": repr(r)}
    core = rx.to_core(r)
    out = front.compile_src(src, list(argv))
    shard.event("evaluations")
    if core == rx.EMPTY:
        shard.event("empty_language")
        return
    if not out.accepted:
        if out.kind == "crash":
            raise Failure("c07:compiler-crash:" + type(out.exc).__name__, "%s\n%r" % (src, out), replay)
        shard.event("rejected:" + type(out.exc).__name__)
        return
    comp = out.compiled
    tabs = dfawalk.Tables(comp)
    auto = rx.Auto(core)
    res = dfawalk.product_search(tabs, comp.dfa.starting_state, auto)
    nstates = len(auto.states(2000))
    if nstates >= 3:
        sets = rx.charsets_of(core)
        overlapping = any(a != b and (a & b) for a, b in itertools.combinations(sets, 2))
        if overlapping or any(len(s) > 128 for s in sets):
            shard.nontriv(src_re)
            shard.event("class:overlapping_or_inverted")
    if res is None:
        if len(shard.samples) < 3 and nstates >= 4:
            shard.sample({"regex": src_re, "automaton_states": nstates})
        return
    kind, word, detail = res
    if kind == "too-large":
        shard.event("too_large")
        return
    wbytes = bytes(b for b in word if b != dfawalk.END)
    extra = ""
    if confirm_c:
        try:
            c2 = front.compile_src(src, list(argv) + ["-findirect-start-ptr"]).compiled
            b = crun.Binary(c2)
            try:
                runs = b.run(crun.Script().start().feed(wbytes + b"\x00").stop()) if wbytes else []
                extra = "\nC binary on %s+00: %r" % (wbytes.hex(), [(e.name, e.code, e.off) for e in runs[0] if e.kind == "R"] if runs else None)
            finally:
                b.close()
        except Exception as e:  # noqa: BLE001 - report only
            extra = "\n(C confirmation not available: %s)" % e
    raise Failure("c07:" + kind, "regex %s\nwitness word %s\n%s%s" % (src_re, [("END" if b == dfawalk.END else "%02x" % b) for b in word], detail, extra),
                  dict(replay, word=[int(b) for b in word]))


def exhaustive_worker(job):
    idx, asts, binary, known = job
    shard = Shard()
    for r in asts:
        try:
            check_regex(shard, r, binary)
        except Failure as f:
            if f.sig in known:
                shard.known_hits[f.sig] += 1
            else:
                shard.failures.append({"sig": f.sig, "what": f.what, "replay": f.replay})
                break
    return shard


@st.composite
def inverted_alt(draw):
    """Binary regexes made of several inverted sets with large complementary ranges (and friends)."""
    def iset():
        items = []
        for _ in range(draw(st.integers(1, 2))):
            lo = draw(st.sampled_from([0x00, 0x01, 0x40, 0x7f, 0x80, 0x81, 0xf0]))
            hi = draw(st.sampled_from([lo, 0x7f, 0x80, 0xfe, 0xff]))
            if hi < lo:
                lo, hi = hi, lo
            items.append(("r", lo, hi) if hi != lo else ("c", lo))
        return ("set", tuple(items), True)
    parts = [iset() for _ in range(draw(st.integers(2, 3)))]
    shape = draw(st.sampled_from(["alt", "seq", "alt-star", "mixed"]))
    if shape == "alt":
        return ("alt", tuple(parts))
    if shape == "seq":
        return ("seq", tuple(parts))
    if shape == "alt-star":
        return ("op", ("alt", tuple(parts)), draw(st.sampled_from("*+")))
    return ("seq", (("alt", tuple(parts[:2])), ("lit", draw(st.sampled_from([0x00, 0x7f, 0x80, 0xff]))), parts[-1]))


@st.composite
def random_case(draw):
    binary = draw(st.booleans())
    if binary and draw(st.integers(0, 2)) == 0:
        return draw(inverted_alt()), True
    cfg = gen.GenConfig(wide_bytes=0.3)
    r = draw(gen.regex(cfg, binary, depth=draw(st.integers(1, 3))))
    return r, binary


def random_worker(job):
    seed, n, known, stop_at = job
    shard = Shard()

    def body(val):
        r, binary = val
        check_regex(shard, r, binary, argv=("-O1",))
        shard.event("random:binary" if binary else "random:text")

    common.hyp_run(shard, body, random_case(), n, seed, known_keys=known, stop_at=stop_at)
    return shard


def regress_worker(job):
    path, known = job
    shard = Shard()
    with open(path) as fh:
        d = json.load(fh)
    try:
        r = eval(d["regex"], {"__builtins__": {}})     # AST tuples written by this check
        check_regex(shard, r, d["binary"])
    except Failure as f:
        if f.sig in known:
            shard.known_hits[f.sig] += 1
        else:
            shard.failures.append({"sig": f.sig, "what": "regression case %s: %s" % (path, f.what), "replay": f.replay})
    shard.event("regression_cases")
    return shard


def chunks(seq, k):
    return [seq[i::k] for i in range(k)]


def main(ctx):
    quick = ctx.tier == "quick"
    known = tuple(ctx.open_keys)
    reg = sorted(glob.glob(os.path.join(common.VERIF_DIR, "regress", "C07", "*.json")))
    ctx.pmap(regress_worker, [(p, known) for p in reg])
    maxn = 4 if quick else 5
    jobs = []
    total = 0
    for binary, leaves in ((False, LEAVES_TEXT), (True, LEAVES_BIN)):
        asts = []
        for n in range(1, maxn + 1):
            asts += enumerate_asts(n, leaves)
        total += len(asts)
        for i, ch in enumerate(chunks(asts, 16)):
            jobs.append((i, ch, binary, known))
    ctx.pmap(exhaustive_worker, jobs)
    ctx.exhaustive = True
    ctx.total.extra["exhaustive_part"] = "all %d regex ASTs with <= %d nodes over leaves {a, b, ., [^a], \\w | [^00-7f]} in text and binary spelling" % (total, maxn)
    n = 500 if quick else 8000
    stop_at = time.time() + (60 if quick else 900)
    ctx.pmap(random_worker, [(ctx.seed * 100003 + i, n, known, stop_at) for i in range(common.NPROC)])
    ctx.rule = ("case = regex AST (exhaustive up to %d nodes over 5 leaves, both spellings; Hypothesis-generated deeper ones with classes, ranges, "
                "inverted sets, repeats; binary alternations of inverted sets with complementary ranges); each is decided exactly by product "
                "search against the derivative automaton over 256 bytes + END. Non-trivial: automaton with >= 3 states and overlapping or "
                "inverted (more than half the alphabet) character sets; distinct by regex text." % maxn)
    ctx.assumptions = ["vlib/rx.py (Brzozowski derivatives) is the reference semantics of the dialect as documented in parser.md",
                       "regexes that the dialect cannot spell (e.g. a literal '?' outside a set, raw whitespace) are not generated"]
    ctx.required_classes = ["evaluations", "class:overlapping_or_inverted", "random:binary", "random:text"]


def replay(ctx, data):
    rp = data["replay"]
    print(rp["source"], rp.get("word"))
    return 0
