"""
C09 - acceptance implies one-byte-lookahead unambiguity.   (one direction only: accepted => unambiguous)

Programs are generated *without* the lookahead constraint in a fragment whose consumption language is regular and
computed from the IR (match statements, optional, try, foreach, non-greedy / greedy case with match bodies, nesting).
For every accepted program an exact decision procedure on independently built derivative automata searches for an
ambiguity witness:
  * clause sets: two patterns of a non-greedy case such that a word of one is a prefix of (or equal to) a word of the
    other; greedy: a word matched by patterns of two clauses that share the highest priority;
  * sequences: a statement A that may end after w while byte c both continues A and can start what follows
    (First of the rest, through nullable statements and out of enclosing blocks); optional bodies whose first bytes
    also start what follows.
A witness on an accepted program is a violation (reported with the construct, the word w and the byte c).
Rejected-but-unambiguous programs are only counted (over-rejection is not part of the property); rejections must be
NMFUErrors, not crashes.
"""
import glob
import json
import os
import time

from hypothesis import strategies as st

from vlib import common, front, gen, ir, rx
from vlib.common import Failure, Shard


class NotRegular(Exception):
    pass


def lang_of(stmt):
    k = stmt[0]
    if k in ("match", "wait"):
        c = ir.match_core(stmt[1])
        if c is None:
            raise NotRegular()
        return c
    if k == "append":
        c = ir.match_core(stmt[2])
        if c is None:
            raise NotRegular()
        return c
    if ir.is_action(stmt):
        return rx.EPS
    if k == "optional":
        return rx.alt(seq_lang(stmt[1]), rx.EPS)
    if k == "try":
        return seq_lang(stmt[2])
    if k == "foreach":
        return seq_lang(stmt[1])
    if k == "if":
        alts = [seq_lang(b) for _, b in stmt[1]]
        alts.append(seq_lang(stmt[2]) if stmt[2] is not None else rx.EPS)
        return rx.alt(*alts)
    if k == "case":
        alts = []
        for pats, prio, body in stmt[2]:
            for p in pats:
                if p == "else":
                    raise NotRegular()
                c = ir.match_core(p)
                if c is None:
                    raise NotRegular()
                alts.append(rx.seq(c, seq_lang(body)))
        return rx.alt(*alts)
    raise NotRegular()


def seq_lang(body):
    out = rx.EPS
    for s in reversed(body):
        out = rx.seq(lang_of(s), out)
    return out


def first_of(core, follow):
    f = set(rx.first(core))
    if rx.nullable(core):
        f |= follow
    return f


def continuation_witness(core, rest_first):
    """(w, c) such that w in L(core), wc viable in core, c in rest_first; or None."""
    if not rest_first:
        return None
    auto = rx.Auto(core)
    seen = {auto.start: ()}
    order = [auto.start]
    i = 0
    while i < len(order):
        q = order[i]
        i += 1
        w = seen[q]
        for cls in auto.classes:
            n = rx.deriv(q, min(cls))
            if n == rx.EMPTY:
                continue
            if rx.nullable(q):
                hit = sorted(cls & rest_first)
                if hit:
                    return (bytes(w), hit[0])
            if n not in seen:
                seen[n] = w + (min(cls),)
                order.append(n)
                if len(order) > 3000:
                    return None
    return None


def greedy_tie_witness(clauses):
    """clauses: list of (clause index, prio, core). A word matched by patterns of two different clauses with equal top priority."""
    pats = [(ci, p or 0, c) for ci, p, c in clauses]
    sets = set()
    for _, _, c in pats:
        sets |= rx.charsets_of(c)
    reps = [min(c) for c in rx.byte_classes(sets)]
    start = tuple(c for _, _, c in pats)
    seen = {start: ()}
    order = [start]
    i = 0
    while i < len(order):
        tup = order[i]
        i += 1
        acc = [(pats[j][0], pats[j][1]) for j, c in enumerate(tup) if c != rx.EMPTY and rx.nullable(c)]
        if acc:
            best = max(p for _, p in acc)
            winners = set(ci for ci, p in acc if p == best)
            if len(winners) > 1:
                return bytes(seen[tup])
        for b in reps:
            nt = tuple(rx.deriv(c, b) if c != rx.EMPTY else rx.EMPTY for c in tup)
            if all(c == rx.EMPTY for c in nt):
                continue
            if nt not in seen:
                seen[nt] = seen[tup] + (b,)
                order.append(nt)
                if len(order) > 4000:
                    return None
    return None


def find_ambiguity(body, follow, path="body"):
    """Returns None or (kind, where, detail)."""
    for i, s in enumerate(body):
        rest = seq_lang(body[i + 1:])
        rest_first = first_of(rest, follow)
        k = s[0]
        here = "%s[%d:%s]" % (path, i, k)
        if k in ("match", "append", "wait"):
            core = lang_of(s)
            w = continuation_witness(core, rest_first)
            if w is not None:
                return ("statement-end", here, "statement %s may end after %r but byte 0x%02x both continues it and starts what follows" %
                        (ir.print_stmt(s, 0).strip(), w[0], w[1]))
        elif ir.is_action(s):
            continue
        elif k == "optional":
            inner = seq_lang(s[1])
            clash = sorted(set(rx.first(inner)) & rest_first)
            if clash:
                return ("optional-or-skip", here, "byte 0x%02x starts the optional body and also what follows it" % clash[0])
            r = find_ambiguity(s[1], rest_first, here)
            if r:
                return r
        elif k == "try":
            r = find_ambiguity(s[2], rest_first, here + ".body")
            if r:
                return r
            try:
                r = find_ambiguity(s[3], rest_first, here + ".catch")
            except NotRegular:
                r = None
            if r:
                return r
        elif k == "foreach":
            r = find_ambiguity(s[1], rest_first, here)
            if r:
                return r
        elif k == "if":
            # every branch is feasible (the generator makes the tested variable depend on the input), so each is a possible continuation
            for bi, b in enumerate([b for _, b in s[1]] + ([s[2]] if s[2] is not None else [])):
                r = find_ambiguity(b, rest_first, here + ".branch%d" % bi)
                if r:
                    return r
        elif k == "case":
            greedy = s[1]
            flat = []
            for ci, (pats, prio, cbody) in enumerate(s[2]):
                for p in pats:
                    flat.append((ci, prio, ir.match_core(p), p, cbody))
            if not greedy:
                for a in range(len(flat)):
                    for b in range(a + 1, len(flat)):
                        if ir.prefix_conflict(flat[a][2], flat[b][2]):
                            return ("case-patterns", here, "patterns %s and %s: a word of one is a prefix of (or equal to) a word of the other"
                                    % (ir.print_match(flat[a][3]), ir.print_match(flat[b][3])))
            else:
                w = greedy_tie_witness([(ci, prio, c) for ci, prio, c, _, _ in flat])
                if w is not None:
                    return ("greedy-tie", here, "word %r is matched by patterns of two clauses with the same highest priority" % w)
            for ci, prio, c, p, cbody in flat:
                seq = (("match", p),) + tuple(cbody)
                if greedy:
                    # inside a greedy case the pattern itself is allowed to be followed by its own continuation (maximal munch);
                    # only the clause body's statements are checked against what follows
                    r = find_ambiguity(tuple(cbody), rest_first, here + ".clause%d" % ci)
                else:
                    r = find_ambiguity(seq, rest_first, here + ".clause%d" % ci)
                if r:
                    return r
        else:
            raise NotRegular()
    return None


# ------------------------------------------------------------------ generation (no lookahead constraint)

@st.composite
def free_match(draw, cfg):
    k = draw(st.integers(0, 9))
    if k < 5:
        r = draw(gen.regex(cfg, False, depth=draw(st.integers(0, 2))))
        try:
            rx.to_source(r, False)
        except rx.Unspellable:
            return ("lit", b"ab", "str")
        return ("re", r, False)
    bs = bytes(draw(st.lists(st.sampled_from(list(b"abc")), min_size=1, max_size=3)))
    return ("lit", bs, draw(st.sampled_from(["str", "str", "casei"])))


@st.composite
def free_body(draw, cfg, depth, n_max=4, first_must_match=False):
    n = draw(st.integers(1, n_max))
    out = []
    for i in range(n):
        kinds = ["match", "match", "match", "optional", "case", "try", "foreach", "gcase", "if"] if depth > 0 else ["match"]
        if i == 0 and first_must_match:
            kinds = ["match"]
        k = draw(st.sampled_from(kinds))
        if k == "match":
            out.append(("match", draw(free_match(cfg))))
        elif k == "optional":
            out.append(("optional", draw(free_body(cfg, depth - 1, 2, first_must_match=True))))
        elif k == "try":
            out.append(("try", ("nomatch",), draw(free_body(cfg, depth - 1, 2)), ()))
        elif k == "foreach":
            out.append(("foreach", draw(free_body(cfg, depth - 1, 2, first_must_match=True)), (("assign", "n1", ("num", 1, "dec")),)))
        elif k == "if":
            nb = draw(st.integers(1, 2))
            branches = tuple((("bin", "==", ("var", "n0"), ("num", j, "dec")), draw(free_body(cfg, depth - 1, 2))) for j in range(nb))
            out.append(("if", branches, draw(free_body(cfg, depth - 1, 2)) if draw(st.booleans()) else None))
        else:
            greedy = (k == "gcase")
            clauses = []
            for _ in range(draw(st.integers(2, 3))):
                pats = tuple(draw(free_match(cfg)) for _ in range(draw(st.sampled_from([1, 1, 2]))))
                body = draw(free_body(cfg, depth - 1, 2)) if draw(st.booleans()) else ()
                clauses.append((pats, draw(st.sampled_from([None, 0, 1])) if greedy else None, body))
            out.append(("case", greedy, tuple(clauses)))
    return tuple(out)


SELECTOR = ("case", False, tuple(((("lit", bytes([0x30 + j]), "str"),), None, (("assign", "n0", ("num", j, "dec")),)) for j in range(3)))


def has_if(body):
    for s in body:
        if s[0] == "if":
            return True
        if s[0] in ("optional", "foreach") and has_if(s[1]):
            return True
        if s[0] == "try" and (has_if(s[2]) or has_if(s[3])):
            return True
        if s[0] == "case" and any(has_if(b) for _, _, b in s[2]):
            return True
        if s[0] == "if" and (any(has_if(b) for _, b in s[1]) or (s[2] is not None and has_if(s[2]))):
            return True
    return False


OPEN_HEADS = [("match", ("re", ("op", ("lit", 0x61), "*"), False)), ("match", ("re", ("op", ("set", (("c", 0x61), ("c", 0x62)), False), "+"), False)),
              ("optional", (("match", ("lit", b"a", "str")),)), ("match", ("re", ("op", ("cls", "w"), "*"), False)),
              ("match", ("re", ("seq", (("lit", 0x78), ("op", ("set", (("c", 0x61),), True), "*"))), False)), ("optional", (("match", ("lit", b"q", "str")),))]
BRANCH_STARTS = [("set", (("c", 0x61),), True), ("set", (("c", 0x71),), True), ("set", (("c", 0x61), ("c", 0x62)), True), ("any",), ("cls", "W"), ("cls", "D"),
                 ("set", (("r", 0x62, 0x7a),), False), ("lit", 0x61), ("lit", 0x71), ("set", (("k", "w"),), True), ("set", (("c", 0x78),), True)]


@st.composite
def if_after_open(draw):
    """<open-ended statement>; if n0 == 0 { B1 } [elif n0 == 1 { B2 }] [else { B3 }] with branches that begin with (mostly inverted) classes:
    the byte that ends the open statement must not start any branch."""
    head = draw(st.sampled_from(OPEN_HEADS))
    nb = draw(st.integers(1, 3))
    bodies = []
    for j in range(nb):
        first = draw(st.sampled_from(BRANCH_STARTS))
        tail = ("lit", draw(st.sampled_from(list(b"bcz"))))
        bodies.append((("match", ("re", ("seq", (first, tail)), False)),))
    use_else = nb >= 2 and draw(st.booleans())
    branches = tuple((("bin", "==", ("var", "n0"), ("num", j, "dec")), b) for j, b in enumerate(bodies[:nb - 1 if use_else else nb]))
    stmt = ("if", branches, bodies[-1] if use_else else None)
    lead = draw(st.sampled_from([(), (("match", ("lit", b"x", "str")),)]))
    return (SELECTOR,) + lead + (head, stmt, ("match", ("lit", b";", "str")))


@st.composite
def case_strategy(draw):
    cfg = gen.GenConfig(wide_bytes=0.0)
    if draw(st.integers(0, 5)) == 0:
        return draw(if_after_open()), [draw(st.sampled_from(gen.OPT_LEVELS))]
    body = draw(free_body(cfg, draw(st.integers(0, 2))))
    if has_if(body):
        # the variable the conditions test is chosen by the first input byte: every branch can be the one taken
        body = (SELECTOR,) + body
    argv = [draw(st.sampled_from(gen.OPT_LEVELS))]
    return body, argv


def check_program(shard, body, argv):
    prog = ir.Program([("int", "n0", True, None, 0), ("int", "n1", True, None, 0)], [], [], [], [], body, argv)
    src = prog.source()
    replay = {"source": src, "argv": argv}
    shard.event("evaluations")
    out = front.compile_src(src, argv)
    try:
        amb = find_ambiguity(body, set())
    except NotRegular:
        shard.event("outside_fragment")
        return
    if out.kind == "crash":
        shard.event("compiler_crash_(C18)")
        return
    if out.accepted:
        shard.event("accepted")
        if amb is not None:
            raise Failure("c09:accepted-ambiguous:" + amb[0], "accepted, but %s: %s\n%s" % (amb[1], amb[2], src), replay)
        lookahead = any(s[0] in ("optional", "case") or (s[0] == "match" and ir.match_summary(s[1]).tail) for s in body[:-1])
        if lookahead:
            shard.nontriv(src)
            shard.event("class:accepted_with_lookahead_decision")
        if len(shard.samples) < 2 and lookahead:
            shard.sample({"source": src, "argv": argv, "verdict": "accepted, no ambiguity witness"})
    else:
        shard.event("rejected")
        msg = (out.msg or "").lower()
        if amb is not None:
            shard.event("rejected_and_ambiguous")
            shard.nontriv(src)
            if len(shard.samples) < 4:
                shard.sample({"source": src, "argv": argv, "verdict": "rejected: " + (out.msg or "").split("\n")[0][:80], "witness": amb[2][:200]})
        else:
            shard.event("rejected_but_no_witness_(over-rejection or other reason):" + type(out.exc).__name__)


def worker(job):
    seed, n, known, stop_at = job
    shard = Shard()

    def body(val):
        b, argv = val
        check_program(shard, b, argv)

    common.hyp_run(shard, body, case_strategy(), n, seed, known_keys=known, stop_at=stop_at)
    return shard


def corpus_worker(job):
    path, known = job
    shard = Shard()
    import shlex
    src = open(path).read()
    first = src.splitlines()[0] if src else ""
    argv = shlex.split(first[len("// args: "):]) if first.startswith("// args: ") else []
    out = front.compile_src(src, argv)
    shard.event("evaluations")
    shard.event("corpus_fail_files")
    if out.accepted or out.kind == "crash":
        shard.failures.append({"sig": "c09:fail-corpus-not-diagnosed", "what": "%s: expected a diagnosis, got %r" % (path, out), "replay": {"source": src, "argv": argv}})
    return shard


def main(ctx):
    quick = ctx.tier == "quick"
    known = tuple(ctx.open_keys)
    corpus = sorted(glob.glob(os.path.join(common.REPO, "example", "test", "*.fail.nmfu")))
    ctx.pmap(corpus_worker, [(p, known) for p in corpus])
    n = 250 if quick else 6000
    stop_at = time.time() + (70 if quick else 900)
    ctx.pmap(worker, [(ctx.seed * 100003 + i, n, known, stop_at) for i in range(common.NPROC)])
    ctx.rule = ("case = program generated without any lookahead constraint in the regular fragment (matches, optional, try, foreach, plain and greedy "
                "case with match bodies, nesting <= 2); for every case the exact ambiguity decision on derivative automata is compared with the "
                "verdict: accepted + witness = violation. Non-trivial: accepted program containing a lookahead decision before its last statement, "
                "or rejected program with an ambiguity witness; distinct by source. The repository's .fail corpus must be diagnosed.")
    ctx.assumptions = ["one direction only (accepted => unambiguous); over-rejection is counted, not judged",
                       "loops, if and else clauses are outside the exactly-decidable fragment used here (their lookahead behaviour is exercised through C01's reference interpreter)"]
    ctx.required_classes = ["accepted", "rejected_and_ambiguous", "class:accepted_with_lookahead_decision"]


def replay(ctx, data):
    rp = data["replay"]
    print(rp["source"])
    print(rp["argv"])
    return 0
