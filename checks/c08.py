"""
C08 - a case statement runs exactly the clause whose pattern matched.

(a) single case inside a marker harness
        try { case { P.. -> { m = i; } ... [else -> { m = 90; }] }  "Z";  m = [m + 100]; } catch (nomatch) { m = [m + 1000]; }
    reference: all clause patterns as independent derivative automata advanced in parallel (parser.md semantics: the
    clause whose pattern equals the consumed bytes; else / no-match exactly when the input stops being a prefix of
    every pattern, starting at the offending byte; greedy = consume while any pattern continues, then highest
    priority among the patterns matching what was consumed, no backtracking).  Every input up to length L over the
    patterns' bytes + Z + an outsider is run through the abstract machine; sampled words through the C binary.
(b) lexer form  loop { greedy case { P_i -> { yield T_i; } } }  against a maximal-munch tokenizer: the sequence of
    (yield code, offset) and the FAIL offset must match, through the C binary with random chunking.
"""
import glob
import json
import os
import time

from hypothesis import strategies as st

from vlib import am as am_mod
from vlib import common, crun, front, gen, ir, rx, trace, walk
from vlib.common import Failure, Shard

OK, FAIL, DONE = 0, 1, 2


class Ambiguous(Exception):
    pass


def case_reference(clauses, greedy, has_else, word):
    """
    clauses: list of (marker, prio, [core regexes]).  Returns ('clause', marker, consumed) | ('else', consumed_before_offender)
    | ('nomatch', index_of_offending_byte) | ('pending',)
    """
    live = []
    for marker, prio, cores in clauses:
        for c in cores:
            live.append([marker, prio or 0, c])
    i = 0
    n = len(word)
    while True:
        accepting = [(m, p) for m, p, c in live if rx.nullable(c)]
        if not greedy and accepting:
            if len(set(m for m, _ in accepting)) > 1:
                raise Ambiguous()
            return ("clause", accepting[0][0], i)
        if i >= n:
            if greedy and accepting and not any(c != rx.EMPTY and c != rx.EPS and rx.first(c) for _, _, c in live):
                # nothing can continue: the finishing pattern is selected without lookahead
                return pick(accepting, i)
            return ("pending",)
        b = word[i]
        nxt = [[m, p, rx.deriv(c, b)] for m, p, c in live]
        alive = [x for x in nxt if x[2] != rx.EMPTY]
        if not alive:
            if greedy and accepting:
                return pick(accepting, i)
            return ("else", i) if has_else else ("nomatch", i)
        live = alive
        i += 1


def pick(accepting, i):
    best = max(p for _, p in accepting)
    winners = set(m for m, p in accepting if p == best)
    if len(winners) > 1:
        raise Ambiguous()
    return ("clause", winners.pop(), i)


def expected_outcome(clauses, greedy, has_else, word):
    """(terminal_index or None, code, m) for the marker harness."""
    r = case_reference(clauses, greedy, has_else, word)
    if r[0] == "pending":
        return None
    if r[0] == "clause":
        m, pos = r[1], r[2]
    elif r[0] == "else":
        m, pos = 90, r[1]
    else:
        return (r[1], DONE, 1000)
    # greedy clause selection needs the lookahead byte (unless nothing could continue); non-greedy does not
    if pos >= len(word):
        return ("after-case", m)
    if word[pos] == 0x5a:
        return (pos, DONE, m + 100)
    return (pos, DONE, m + 1000)


def harness_source(clauses_ir, greedy, else_mode):
    lines = ["out int m = 0;", "parser {", "    try {", "        %scase {" % ("greedy " if greedy else "")]
    for marker, prio, pats, bang in clauses_ir:
        pre = ("prio %d " % prio) if (greedy and prio is not None) else ""
        ptxt = ", ".join(ir.print_match(p) for p in pats)
        if else_mode == "combined" and marker == clauses_ir[-1][0]:
            ptxt += ", else"
        lines.append("            %s%s -> { m = %d; %s}" % (pre, ptxt, marker, '"!"; ' if bang else ""))
    if else_mode == "own":
        lines.append("            else -> { m = 90; }")
    lines += ["        }", "        \"Z\";", "        m = [m + 100];", "    }", "    catch (nomatch) {", "        m = [m + 1000];", "    }", "}"]
    return "\n".join(lines) + "\n"


def check_case(shard, clauses_ir, greedy, else_mode, argv, max_len, do_c=True):
    src = harness_source(clauses_ir, greedy, else_mode)
    replay = {"source": src, "argv": argv}
    shard.event("cases_generated")
    out = front.compile_src(src, argv)
    if not out.accepted:
        shard.event("rejected:" + type(out.exc).__name__)
        return
    shard.event("programs")
    comp = out.compiled
    m = am_mod.Machine(comp)
    clauses = []
    bangs = {}
    for marker, prio, pats, bang in clauses_ir:
        clauses.append((marker, prio, [ir.match_core(p) for p in pats]))
        bangs[marker] = bang
    has_else = else_mode != "none"
    else_marker = 90 if else_mode == "own" else (clauses_ir[-1][0] if else_mode == "combined" else None)
    sets = set()
    for _, _, cores in clauses:
        for c in cores:
            sets |= rx.charsets_of(c)
    small = sorted(set(b for s_ in sets if len(s_) <= 6 for b in s_))
    alphabet = small[:4] + [0x5a] + ([0x21] if any(bangs.values()) else [])
    outsider = next(b for b in (0x23, 0x7e, 0x00, 0x01, 0x02) if b not in alphabet and all(b not in s_ for s_ in sets if len(s_) <= 128))
    alphabet.append(outsider)
    words_for_c = []
    tie_seen = [False]
    shared_prefix = any(ir.prefix_conflict(a, b) for i, (_, _, ca) in enumerate(clauses) for (_, _, cb) in clauses[i + 1:] for a in ca for b in cb) if greedy else \
        len(set(min(rx.first(c)) for _, _, cs in clauses for c in cs if rx.first(c))) < sum(len(cs) for _, _, cs in clauses)

    def visit(word, tls, cfgs):
        shard.event("evaluations")
        tl, cfg = tls[0], cfgs[0]
        try:
            r = case_reference(clauses, greedy, has_else, word)
        except Ambiguous:
            shard.event("reference_ambiguous_skipped")
            return
        if r[0] == "else" and else_mode == "combined":
            r = ("else-combined", r[1])
        mval = cfg.vars["m"]
        ok = True
        want = None
        if r[0] == "pending":
            ok = tl.terminal is None
            want = "no terminal result yet"
        else:
            if r[0] == "clause":
                mk, pos = r[1], r[2]
            elif r[0] == "else":
                mk, pos = 90, r[1]
            elif r[0] == "else-combined":
                mk, pos = else_marker, r[1]
            else:
                mk, pos = None, r[1]
            if mk is None:
                want = (pos, DONE, 1000)
            else:
                follow = (b"!" if bangs.get(mk) else b"") + b"Z"
                want = None
                for j, ch in enumerate(follow):
                    if pos + j >= len(word):
                        break
                    if word[pos + j] != ch:
                        want = (pos + j, DONE, mk + 1000)
                        break
                else:
                    want = (pos + len(follow) - 1, DONE, mk + 100)
                if want is None:
                    # clause decided but what follows it not seen completely: m may or may not be assigned already
                    ok = tl.terminal is None and mval in (0, mk)
            if want is not None and isinstance(want, tuple):
                if len(word) > want[0]:
                    ok = tl.terminal is not None and tl.terminal == (want[0], want[1]) and mval == want[2]
        if not ok:
            if greedy:
                # root-cause class: the observed marker belongs to a clause whose pattern matched an earlier prefix of what the case consumed
                base = mval - 1000 if mval >= 1000 else (mval - 100 if mval >= 100 else mval)
                passed = set()
                live = [[mk_, c_] for mk_, _, cs_ in clauses for c_ in cs_]
                for b_ in word:
                    passed |= set(mk_ for mk_, c_ in live if rx.nullable(c_))
                    live = [[mk_, rx.deriv(c_, b_)] for mk_, c_ in live]
                    live = [x for x in live if x[1] != rx.EMPTY]
                    if not live:
                        break
                exp_marker = want[2] % 100 if isinstance(want, tuple) else None
                if base in passed and base != exp_marker and not bangs.get(base, False):
                    raise Failure("c08:greedy:action-of-passed-clause",
                                  "input %s: reference says %r -> expected %r, machine gives terminal=%r m=%d (marker of a clause that was only passed through)\n%s"
                                  % (word.hex(), r, want, tl.terminal, mval, src), dict(replay, input=word.hex()))
            raise Failure("c08:%s:%s" % ("greedy" if greedy else "plain", r[0]),
                          "input %s: reference says %r -> expected %r, machine gives terminal=%r m=%d\n%s" % (word.hex(), r, want, tl.terminal, mval, src),
                          dict(replay, input=word.hex()))
        if r[0] == "clause" and greedy:
            tie_seen[0] = True
        if len(word) == max_len and len(words_for_c) < 30 and sum(word) % 5 == 0:
            words_for_c.append(word)

    try:
        stats = walk.joint_walk([m], alphabet, max_len, visit, node_cap=5000)
    except am_mod.Undefined:
        return
    if (len(clauses_ir) >= 3 and shared_prefix) or (greedy and tie_seen[0]):
        shard.nontriv(src)
        shard.event("class:shared_prefix_or_greedy")
    if do_c and words_for_c:
        c2 = front.compile_src(src, argv + ["-findirect-start-ptr"]).compiled
        try:
            b = crun.Binary(c2)
        except crun.BuildError as e:
            raise Failure("c08:c-build-error", str(e)[-800:], replay)
        try:
            sc = crun.Script()
            for w in words_for_c:
                sc.b += trace.script_for([w[i:i + 1] for i in range(len(w))], move=False).b
            rc, outp, err = b.run_raw(sc)
            if rc != 0:
                raise Failure("c08:c-crash", "rc=%s %s" % (rc, err[-500:]), replay)
            m2 = am_mod.Machine(c2)
            for w, run in zip(words_for_c, crun.parse_log(outp)):
                got = trace.c_calls(run)
                want, _ = trace.am_calls(m2, [w[i:i + 1] for i in range(len(w))], indirect=True)
                shard.event("c_runs")
                d = trace.first_diff(want, got)
                if d:
                    raise Failure("c08:c-vs-am", "input %s: %s" % (w.hex(), d[1]), dict(replay, input=w.hex()))
        finally:
            b.close()
    if len(shard.samples) < 2:
        shard.sample({"source": src, "argv": argv, "alphabet": alphabet, "walk_nodes": stats["nodes"]})


# ------------------------------------------------------------------ lexer form

def tokenize(tokens, word):
    """tokens: list of (code index, prio, core). Returns (list of (code, end_offset), fail_offset or None, pending)."""
    out = []
    pos = 0
    n = len(word)
    while pos < n:
        live = [[c, p, r] for c, p, r in tokens]
        i = pos
        last_accept = None
        while True:
            acc = [(c, p) for c, p, r in live if rx.nullable(r)]
            if i >= n:
                if acc and not any(rx.first(r) for _, _, r in live):
                    # nothing can continue: the token is complete without lookahead
                    best = max(p for _, p in acc)
                    win = set(c for c, p in acc if p == best)
                    if len(win) > 1:
                        raise Ambiguous()
                    out.append((win.pop(), i, "optional"))   # complete at the very end of the input: may be reported now or with the next byte
                    return out, None, False
                return out, None, True        # need more input to decide
            nxt = [[c, p, rx.deriv(r, word[i])] for c, p, r in live]
            alive = [x for x in nxt if x[2] != rx.EMPTY]
            if not alive:
                if acc:
                    best = max(p for _, p in acc)
                    win = set(c for c, p in acc if p == best)
                    if len(win) > 1:
                        raise Ambiguous()
                    out.append((win.pop(), i))
                    pos = i
                    break
                return out, i, False
            live = alive
            i += 1
    return out, None, True


def check_lexer(shard, toks_ir, argv, words, cut_lists):
    ycodes = ["T%d" % i for i in range(len(toks_ir))]
    lines = ["yieldcode %s;" % ", ".join(ycodes), "parser {", "    loop {", "        greedy case {"]
    for i, (prio, pat) in enumerate(toks_ir):
        pre = ("prio %d " % prio) if prio is not None else ""
        lines.append("            %s%s -> { yield T%d; }" % (pre, ir.print_match(pat), i))
    lines += ["        }", "    }", "}"]
    src = "\n".join(lines) + "\n"
    replay = {"source": src, "argv": argv}
    shard.event("lexers_generated")
    out = front.compile_src(src, argv)
    if not out.accepted:
        shard.event("lexer_rejected:" + type(out.exc).__name__)
        return
    comp = out.compiled
    tokens = [(i, prio or 0, ir.match_core(p)) for i, (prio, p) in enumerate(toks_ir)]
    try:
        b = crun.Binary(comp)
    except crun.BuildError as e:
        raise Failure("c08:c-build-error", str(e)[-800:], replay)
    info = b.info
    try:
        from checks.c02 import chunks_of
        plan = []
        sc = crun.Script()
        for w, cuts in zip(words, cut_lists):
            if not w:
                continue
            n = len(w)
            cs = tuple(sorted(set(x % n for x in cuts if 0 < x % n < n)))
            chunks = chunks_of(w, cs)
            try:
                want = tokenize(tokens, w)
            except Ambiguous:
                shard.event("reference_ambiguous_skipped")
                continue
            plan.append((w, chunks, want))
            sc.b += trace.script_for(chunks, move=True).b
        if not plan:
            return
        rc, outp, err = b.run_raw(sc)
        if rc != 0:
            raise Failure("c08:lexer-c-crash" if rc != 3 else "c08:lexer-hang", "rc=%s\n%s\n%s" % (rc, outp[-300:], err[-500:]), replay)
        for (w, chunks, (toks, fail_at, pending)), run in zip(plan, crun.parse_log(outp)):
            calls = [c for c in trace.c_calls(run) if c.kind == "feed"]
            got = [(c.code - info.first_yield, c.off) for c in calls if info.is_yield(c.code)]
            fails = [c.off for c in calls if c.code == FAIL]
            shard.event("evaluations")
            shard.event("lexer_runs")
            must = [t[:2] for t in toks if len(t) == 2]
            may = [t[:2] for t in toks]
            if got not in (must, may) or (fail_at is not None and (not fails or fails[0] != fail_at)) or (fail_at is None and fails):
                raise Failure("c08:lexer-tokens", "input %s chunks %r\nexpected tokens %r fail at %r\nobserved tokens %r fail %r\n%s"
                              % (w.hex(), [c.hex() for c in chunks], toks, fail_at, got, fails[:1], src), dict(replay, input=w.hex()))
            if len(toks) >= 2:
                shard.nontriv(src + w.hex())
                shard.event("class:lexer_two_tokens")
    finally:
        b.close()


# ------------------------------------------------------------------ strategies

@st.composite
def keyword_set(draw):
    """Greedy 'keyword vs identifier' sets: a literal and a regex that also matches it, distinct priorities, action-only and real bodies mixed."""
    word = bytes(draw(st.lists(st.sampled_from(list(b"ab")), min_size=1, max_size=3)))
    ident = ("re", ("op", ("set", (("r", 0x61, 0x62),), False), "+"), False)
    pk, pi = draw(st.sampled_from([(2, 1), (1, 2), (1, 0), (0, 1), (3, -1), (-1, -2), (1, None), (None, 1)]))
    bk, bi = draw(st.sampled_from([(False, True), (True, False), (False, False), (True, True)]))
    clauses = [(1, pk, (("lit", word, "str"),), bk), (2, pi, (ident,), bi)]
    if draw(st.booleans()):
        clauses.append((3, draw(st.sampled_from([None, 0, 5])), (("lit", b"c", "str"),), draw(st.booleans())))
    order = draw(st.permutations(range(len(clauses))))
    return [clauses[i] for i in order], True, draw(st.sampled_from(["none", "own"])), [draw(st.sampled_from(gen.OPT_LEVELS))]


@st.composite
def clause_set(draw):
    if draw(st.integers(0, 4)) == 0:
        return draw(keyword_set())
    greedy = draw(st.integers(0, 2)) == 0
    cfg = gen.GenConfig(wide_bytes=0.0, regex_weight=3)
    n = draw(st.integers(2, 5))
    clauses = []
    cores = []
    for i in range(n):
        pats = []
        for _ in range(draw(st.sampled_from([1, 1, 2, 3]))):
            kind = draw(st.sampled_from(["lit", "lit", "lit", "casei", "bin", "re", "cat"]))
            if kind in ("lit", "casei", "bin"):
                bs = bytes(draw(st.lists(st.sampled_from(list(b"ab") if kind != "casei" else list(b"abA")), min_size=1, max_size=4)))
                p = ("lit", bs, {"lit": "str", "casei": "casei", "bin": "bin"}[kind])
            elif kind == "re":
                p = ("re", draw(gen.regex(cfg, False, depth=draw(st.integers(0, 2)), closed=(None if greedy else True))), False)
            else:
                p = ("cat", (("lit", bytes(draw(st.lists(st.sampled_from(list(b"ab")), min_size=1, max_size=2))), "str"),
                             ("re", draw(gen.regex(cfg, False, depth=1, closed=True)), False)))
            try:
                ir.print_match(p)
            except rx.Unspellable:
                continue
            c = ir.match_core(p)
            if c is None or rx.nullable(c) or c == rx.EMPTY:
                continue
            if not greedy and any(ir.prefix_conflict(c, o) for o in cores):
                if draw(st.integers(0, 9)) != 0:
                    continue
            cores.append(c)
            pats.append(p)
        if pats:
            prio = draw(st.sampled_from([None, None, 0, 1, 2, -1, 5])) if greedy else None
            clauses.append((i + 1, prio, tuple(pats), draw(st.integers(0, 2)) == 0))
    if len(clauses) < 2:
        clauses = [(1, None, (("lit", b"ab", "str"),), False), (2, None, (("lit", b"ac", "str"),), True)]
    else_mode = draw(st.sampled_from(["none", "own", "own", "combined"]))
    argv = [draw(st.sampled_from(gen.OPT_LEVELS))]
    return clauses, greedy, else_mode, argv


TOKEN_POOL = [("re", ("op", ("cls", "s"), "+"), False), ("lit", b"(", "str"), ("lit", b")", "str"), ("re", ("op", ("cls", "d"), "+"), False),
              ("re", ("op", ("set", (("r", 0x61, 0x7a),), False), "+"), False), ("lit", b"if", "str"), ("lit", b"in", "str"), ("lit", b"=", "str"),
              ("lit", b"==", "str"), ("lit", b"int", "str"), ("re", ("seq", (("lit", 0x2d), ("op", ("cls", "d"), "+"))), False), ("lit", b"-", "str"),
              ("re", ("seq", (("set", (("r", 0x61, 0x7a),), False), ("op", ("cls", "w"), "*"))), False)]


@st.composite
def lexer_case(draw):
    k = draw(st.integers(2, 6))
    idxs = list(draw(st.permutations(range(len(TOKEN_POOL)))))[:k]
    toks = []
    for i in idxs:
        p = TOKEN_POOL[i]
        prio = draw(st.sampled_from([1, 2])) if (p[0] == "lit" and p[1].isalpha()) else draw(st.sampled_from([None, None, 0]))
        toks.append((prio, p))
    argv = [draw(st.sampled_from(gen.OPT_LEVELS)), "-fyield-support"]
    alphabet = b"ab1( )=-inft \n"
    words = [bytes(draw(st.lists(st.sampled_from(list(alphabet)), min_size=1, max_size=14))) for _ in range(draw(st.integers(2, 6)))]
    cuts = [draw(st.lists(st.integers(1, 30), min_size=0, max_size=4)) for _ in words]
    return toks, argv, words, cuts


@st.composite
def case_strategy(draw):
    if draw(st.integers(0, 3)) == 0:
        return ("lexer", draw(lexer_case()))
    return ("case", draw(clause_set()))


def worker(job):
    seed, n, known, stop_at, max_len = job
    shard = Shard()

    def body(val):
        kind, v = val
        if kind == "lexer":
            check_lexer(shard, *v)
        else:
            clauses, greedy, else_mode, argv = v
            check_case(shard, clauses, greedy, else_mode, argv, max_len)

    common.hyp_run(shard, body, case_strategy(), n, seed, known_keys=known, stop_at=stop_at)
    return shard


def double_else_sources():
    """A case with two clauses that both carry `else` has no single clause 'whose pattern matched' when the input stops being a prefix of every
    pattern: it must be a diagnosed error (enumerated: plain / greedy, own clause / combined with a pattern, empty / action / consuming bodies)."""
    bodies = ["{ }", "{ m = 2; }", "{ m = 3; \"q\"; }"]
    out = []
    for greedy in ("", "greedy "):
        for first in ("else", "\"b\", else", "else, \"b\""):
            for second in ("else", "\"c\", else"):
                for b1 in bodies:
                    for b2 in bodies[1:]:
                        out.append("out int m = 0;\nparser {\n    %scase {\n        \"a\" -> { m = 1; }\n        %s -> %s\n        %s -> %s\n    }\n    \"z\";\n}\n"
                                   % (greedy, first, b1, second, b2))
    return out


def double_else_worker(job):
    src, known = job
    shard = Shard()
    o = front.compile_src(src, ["-O1"])
    shard.event("evaluations")
    shard.event("double_else_cases")
    if o.accepted:
        sig = "c08:two-else-clauses-accepted"
        if sig in known:
            shard.known_hits[sig] += 1
        else:
            shard.failures.append({"sig": sig, "what": "a case with two else clauses was accepted (one of them is dropped silently):\n" + src, "replay": {"source": src, "argv": ["-O1"]}})
    elif o.kind == "crash":
        shard.failures.append({"sig": "c08:two-else-clauses-crash", "what": "%r\n%s" % (o, src), "replay": {"source": src, "argv": ["-O1"]}})
    else:
        shard.nontriv(src)
    return shard


def main(ctx):
    quick = ctx.tier == "quick"
    known = tuple(ctx.open_keys)
    de = double_else_sources()
    ctx.pmap(double_else_worker, [(s_, known) for s_ in (de[ctx.seed % 3::3] if quick else de)])
    # open known findings are re-run from their saved replay (must still fail; reported as stale otherwise)
    for key, entry in sorted(ctx.open_keys.items()):
        rp = entry["replay"]
        sh = Shard()
        o = front.compile_src(rp["source"], rp["argv"])
        if o.accepted:
            mm = am_mod.Machine(o.compiled)
            w = bytes.fromhex(rp["input"])
            calls, cfg = trace.am_calls(mm, [w[i:i + 1] for i in range(len(w))])
            if cfg.vars["m"] != rp["expect_m"]:
                sh.known_hits[key] += 1
            else:
                print("STALE-KNOWN-FINDING: property=C08 %s no longer reproduces" % key)
        else:
            print("STALE-KNOWN-FINDING: property=C08 %s replay is no longer accepted" % key)
        ctx.total.merge(sh)
    n = 150 if quick else 2000
    stop_at = time.time() + (75 if quick else 900)
    ctx.pmap(worker, [(ctx.seed * 100003 + i, n, known, stop_at, 5 if quick else 7) for i in range(common.NPROC)])
    ctx.rule = ("case = clause set (2-5 clauses, 1-3 patterns each: literals over {a,b}, casei, binary, closed regexes, concatenations; else absent / own "
                "clause / combined with a pattern; greedy with priorities) in a marker harness, run on every input up to length 5 (quick) / 7 (thorough) "
                "over the patterns' bytes + Z + an outsider against the parallel-automata reference (evaluations = inputs), sampled words through C; "
                "or a lexer-style greedy case in yield mode against a maximal-munch tokenizer through the C binary with random chunking. Non-trivial: "
                ">= 3 clauses sharing first bytes / greedy with overlapping patterns, or a lexer input producing >= 2 tokens.")
    ctx.assumptions = ["clause-selection semantics as read from parser.md (see module docstring); reference-ambiguous inputs are left to C09",
                       "assignment of the marker may be lazy by one byte (documented slack) when the clause has just completed at the end of the input"]
    ctx.required_classes = ["programs", "class:shared_prefix_or_greedy", "lexer_runs", "c_runs"]


def replay(ctx, data):
    rp = data["replay"]
    print(rp["source"])
    print(rp["argv"], rp.get("input"))
    return 0
