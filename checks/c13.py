"""
C13 - macros behave exactly like their textual expansion.

The generator builds an IR program with 1-4 macros (nesting <= 3, every parameter kind: macro, hook, out, match, expr,
loop, finishcode, yieldcode; pass-through of parameters to inner macros incl. inner/outer parameters with the same
name; break targets through `loop` parameters) and prints it twice: with the macros, and with every call replaced by
the macro body with its arguments substituted (substitution done on the IR by this check, not by nmfu).
Oracle: same accept/reject verdict; if accepted, identical behaviour of the two compiled machines on every input up to
length L over the program's byte classes (exact event/terminal/output comparison) and identical C behaviour on sampled
inputs.  Negative cases (wrong arity, wrong argument kind, recursion) must be diagnosed, never accepted or crash.
"""
import glob
import json
import os
import time

from hypothesis import strategies as st

from vlib import am as am_mod
from vlib import common, crun, front, gen, ir, trace, walk
from vlib.common import Failure, Shard


# ------------------------------------------------------------------ substitution on the IR

def sub_match(m, env):
    k = m[0]
    if k == "arg":
        v = env.get(m[1])
        if v is None:
            return m
        return v[1]
    if k == "cat":
        return ("cat", tuple(sub_match(x, env) for x in m[1]))
    return m


def sub_expr(e, env):
    k = e[0]
    if k == "arg":
        v = env.get(e[1])
        return v[1] if v is not None else e
    if k in ("var", "len"):
        v = env.get(e[1])
        if k == "var" and v is not None and v[0] == "e":
            return v[1]          # a name spelled like an expr parameter of this macro is that parameter
        return (k, v[1]) if v is not None and v[0] == "id" else e
    if k == "idx":
        v = env.get(e[1])
        return ("idx", v[1] if v is not None and v[0] == "id" else e[1], sub_expr(e[2], env))
    if k == "bin":
        return ("bin", e[1], sub_expr(e[2], env), sub_expr(e[3], env))
    if k in ("not", "neg"):
        return (k, sub_expr(e[1], env))
    return e


def sub_name(n, env):
    v = env.get(n)
    return v[1] if v is not None and v[0] == "id" else n


def inline_body(body, env, macros, depth=0):
    out = []
    if depth > 8:
        raise RecursionError("macro nesting")
    for s in body:
        k = s[0]
        if k == "call":
            name = sub_name(s[1], env)
            if name not in macros:
                out.append(("hook", name))
                continue
            params, mbody = macros[name]
            args = []
            for a in s[2]:
                if a[0] == "m":
                    args.append(("m", sub_match(a[1], env)))
                elif a[0] == "e":
                    args.append(("e", sub_expr(a[1], env)))
                else:
                    v = env.get(a[1])
                    args.append(v if v is not None and v[0] == "id" else a)      # (a match / expr parameter of that name is another namespace)
            new_env = {pn: av for (pk, pn), av in zip(params, args)}
            out.extend(inline_body(mbody, new_env, macros, depth + 1))
        elif k == "match":
            out.append(("match", sub_match(s[1], env)))
        elif k == "wait":
            out.append(("wait", sub_match(s[1], env)))
        elif k == "append":
            out.append(("append", sub_name(s[1], env), sub_match(s[2], env)))
        elif k == "appendc":
            out.append(("appendc", sub_name(s[1], env), sub_expr(s[2], env)))
        elif k == "assign":
            out.append(("assign", sub_name(s[1], env), sub_expr(s[2], env)))
        elif k == "assignstr":
            out.append(("assignstr", sub_name(s[1], env), s[2]))
        elif k == "delete":
            out.append(("delete", sub_name(s[1], env)))
        elif k == "hook":
            out.append(("hook", sub_name(s[1], env)))
        elif k == "finish":
            out.append(("finish", sub_name(s[1], env) if s[1] else None))
        elif k == "yield":
            out.append(("yield", sub_name(s[1], env)))
        elif k == "break":
            out.append(("break", sub_name(s[1], env) if s[1] else None))
        elif k == "loop":
            out.append(("loop", s[1], inline_body(s[2], env, macros, depth)))
        elif k == "optional":
            out.append(("optional", inline_body(s[1], env, macros, depth)))
        elif k == "try":
            out.append(("try", s[1], inline_body(s[2], env, macros, depth), inline_body(s[3], env, macros, depth)))
        elif k == "foreach":
            out.append(("foreach", inline_body(s[1], env, macros, depth), inline_body(s[2], env, macros, depth)))
        elif k == "case":
            out.append(("case", s[1], tuple((tuple(p if p == "else" else sub_match(p, env) for p in pats), prio, inline_body(b, env, macros, depth))
                                            for pats, prio, b in s[2])))
        elif k == "if":
            out.append(("if", tuple((sub_expr(c, env), inline_body(b, env, macros, depth)) for c, b in s[1]),
                        inline_body(s[2], env, macros, depth) if s[2] is not None else None))
        else:
            raise ValueError(s)
    return tuple(out)


# ------------------------------------------------------------------ generation

KINDS = ["match", "expr", "out_int", "out_str", "hook", "loop", "finishcode", "yieldcode", "macro"]
SRC_KIND = {"match": "match", "expr": "expr", "out_int": "out", "out_str": "out", "hook": "hook", "loop": "loop", "finishcode": "finishcode",
            "yieldcode": "yieldcode", "macro": "macro"}
PNAMES = ["x", "y", "z", "x"]     # 'x' twice: same names across nesting levels are likely


@st.composite
def small_match(draw, closed=True):
    cfg = gen.GenConfig(wide_bytes=0.0, regex_weight=3)
    return draw(gen.match(cfg, closed=closed, allow_cat=False))


@st.composite
def macro_body(draw, params, lower, use_yield):
    """params: list of (gkind, name); lower: dict name -> params (macros that may be called)."""
    stmts = []
    used_consuming = False
    for gk, pn in params:
        if gk == "match":
            form = draw(st.sampled_from(["plain", "cat", "wait", "append"]))
            if form == "plain":
                stmts.append(("match", ("arg", pn)))
            elif form == "cat":
                stmts.append(("match", ("cat", (("lit", b"<", "str"), ("arg", pn)))))
            elif form == "wait":
                stmts.append(("wait", ("arg", pn)))
            else:
                stmts.append(("append", "s0", ("arg", pn)))
            used_consuming = True
        elif gk == "expr":
            form = draw(st.sampled_from(["assign", "math", "if"]))
            if form == "assign":
                stmts.append(("assign", "n0", ("arg", pn)))
            elif form == "math":
                stmts.append(("assign", "n0", ("bin", "+", ("arg", pn), ("num", 1, "dec"))))
            else:
                stmts.append(("if", ((("bin", "==", ("arg", pn), ("num", 1, "dec")), (("assign", "n1", ("num", 7, "dec")),)),), None))
        elif gk == "out_int":
            stmts.append(("assign", pn, ("num", draw(st.integers(0, 9)), "dec")))
        elif gk == "out_str":
            stmts.append(draw(st.sampled_from([("append", pn, ("lit", b"q", "str")), ("delete", pn), ("assignstr", pn, b"k")])))
            if stmts[-1][0] == "append":
                used_consuming = True
        elif gk == "hook":
            stmts.append(("call", pn, ()))
        elif gk == "loop":
            stmts.append(("case", False, (((("lit", b"!", "str"),), None, (("break", pn),)), (("else",), None, ()))))
            used_consuming = True
        elif gk == "finishcode":
            stmts.append(("case", False, (((("lit", b"$", "str"),), None, (("finish", pn),)), (("else",), None, ()))))
            used_consuming = True
        elif gk == "yieldcode":
            stmts.append(("yield", pn))
        elif gk == "macro":
            stmts.append(("call", pn, ()))
    # calls to lower macros, passing own parameters through where kinds agree
    for lname, lparams in lower.items():
        if draw(st.integers(0, 1)) == 0:
            continue
        if any(pn == lname for _, pn in params):
            continue        # the name means the parameter in this body, not the global macro
        args = []
        ok = True
        for lgk, lpn in lparams:
            same = [pn for gk, pn in params if gk == lgk]
            if same and draw(st.integers(0, 2)) != 0:
                pn = draw(st.sampled_from(same))
                compound = draw(st.booleans())      # the parameter is only a part of the argument handed on
                if lgk == "match":
                    args.append(("m", ("cat", (("arg", pn), ("lit", b"x", "str"))) if compound else ("arg", pn)))
                elif lgk == "expr":
                    args.append(("e", ("bin", "+", ("arg", pn), ("num", 1, "dec")) if compound else ("arg", pn)))
                else:
                    args.append(("id", pn))
            else:
                # (global names that a parameter of this macro shadows cannot be meant here)
                a = draw(concrete_arg(lgk, {n_: p_ for n_, p_ in lower.items() if not any(pn_ == n_ for _, pn_ in params)}, use_yield))
                if a is None or (a[0] == "id" and any(pn_ == a[1] for _, pn_ in params)):
                    ok = False
                    break
                args.append(a)
        if ok:
            stmts.append(("call", lname, tuple(args)))
    if draw(st.booleans()) or not stmts:
        stmts.insert(draw(st.integers(0, len(stmts))), ("match", draw(small_match())))
    order = draw(st.permutations(range(len(stmts))))
    return tuple(stmts[i] for i in order)


@st.composite
def concrete_arg(draw, gk, macros, use_yield):
    if gk == "match":
        return ("m", draw(small_match()))
    if gk == "expr":
        return ("e", draw(st.sampled_from([("num", 1, "dec"), ("num", 5, "hex"), ("chr", 0x61), ("bin", "+", ("var", "n1"), ("num", 1, "dec")),
                                           ("bin", "*", ("num", 2, "dec"), ("num", 3, "dec")), ("len", "s0")])))
    if gk == "out_int":
        return ("id", draw(st.sampled_from(["n0", "n1"])))
    if gk == "out_str":
        return ("id", draw(st.sampled_from(["s0", "s1"])))
    if gk == "hook":
        return ("id", draw(st.sampled_from(["h0", "h1"])))
    if gk == "loop":
        return ("id", "lp")
    if gk == "finishcode":
        return ("id", draw(st.sampled_from(["F0", "F1"])))
    if gk == "yieldcode":
        return ("id", "Y0") if use_yield else None
    if gk == "macro":
        zero = [n for n, ps in macros.items() if not ps]
        if not zero:
            return None
        return ("id", draw(st.sampled_from(zero)))
    return None


@st.composite
def macro_program(draw):
    use_yield = draw(st.integers(0, 3)) == 0
    nm = draw(st.integers(1, 4))
    macros = {}
    order = []
    for i in range(nm):
        kinds_pool = [k for k in KINDS if (k != "yieldcode" or use_yield)]
        params = []
        names = list(draw(st.permutations(["x", "y", "z"])))
        for _ in range(draw(st.integers(0, 3))):
            gk = draw(st.sampled_from(kinds_pool))
            if gk == "loop" and any(p[0] == "loop" for p in params):
                continue
            if gk == "macro" and not any(not ps for ps in macros.values()):
                continue
            pname = names.pop()
            # a parameter may carry the name of something global of another kind: an expr parameter called like the output n1 (which the
            # arguments mention), a hook / macro parameter called like an earlier macro
            if gk == "expr" and draw(st.integers(0, 3)) == 0 and not any(p[1] == "n1" for p in params):
                pname = "n1"
            elif gk in ("hook", "macro") and i > 0 and draw(st.integers(0, 3)) == 0 and not any(p[1] == "mac0" for p in params):
                pname = "mac0"
            params.append((gk, pname))
        body = draw(macro_body(params, dict(macros), use_yield))
        name = "mac%d" % i
        macros[name] = params
        order.append((name, params, body))
    # main body: calls (some inside a named loop so that loop parameters have a target)
    calls = []
    for name, params, body in order[::-1][:draw(st.integers(1, len(order)))]:
        args = []
        ok = True
        for gk, pn in params:
            a = draw(concrete_arg(gk, {n: p for n, p, _ in order if n != name and n < name}, use_yield))
            if a is None:
                ok = False
                break
            args.append(a)
        if ok:
            calls.append(("call", name, tuple(args)))
            if params and draw(st.booleans()):
                # a second expansion of the same macro with (mostly) different arguments
                args2 = [draw(concrete_arg(gk, {n: p for n, p, _ in order if n != name and n < name}, use_yield)) for gk, pn in params]
                if all(a is not None for a in args2):
                    calls.append(("call", name, tuple(args2)))
    if not calls:
        calls = [("match", ("lit", b"a", "str"))]
    needs_loop = any(gk == "loop" for name, params, _ in order for gk, _ in params)
    main = []
    for c in calls:
        main.append(c)
        main.append(("match", ("lit", bytes([draw(st.sampled_from(list(b";,:")))]), "str")))
    if needs_loop:
        main = [("loop", "lp", tuple(main) + (("case", False, (((("lit", b"%", "str"),), None, (("break", "lp"),)), (("else",), None, ()))),)), ("match", ("lit", b".", "str"))]
    outs = [("int", "n0", True, None, 0), ("int", "n1", False, 1, 0), ("str", "s0", 4, True, None, False), ("str", "s1", 3, False, None, False)]
    prog = ir.Program(outs, ["h0", "h1"], ["F0", "F1"], ["Y0"] if use_yield else [],
                      [(n, [(SRC_KIND[gk], pn) for gk, pn in ps], b) for n, ps, b in order], tuple(main),
                      [draw(st.sampled_from(gen.OPT_LEVELS))] + (["-fyield-support"] if use_yield else []))
    return prog, {n: (ps, b) for n, ps, b in order}


def nesting_depth(macros_ir, name, seen=()):
    params, body = macros_ir[name]
    d = 0
    for s in body:
        if s[0] == "call" and s[1] in macros_ir and s[1] not in seen:
            d = max(d, 1 + nesting_depth(macros_ir, s[1], seen + (name,)))
    return d


def check_program(shard, prog, macros_ir, max_len, do_c=True):
    src_m = prog.source()
    try:
        inl_body = inline_body(prog.body, {}, macros_ir)
    except RecursionError:
        shard.event("recursive_generation_skipped")
        return
    inl = ir.Program(prog.outs, prog.hooks, prog.fcodes, prog.ycodes, [], inl_body, prog.argv)
    src_i = inl.source()
    replay = {"with_macros": src_m, "inlined": src_i, "argv": prog.argv}
    shard.event("evaluations")
    om = front.compile_src(src_m, prog.argv)
    oi = front.compile_src(src_i, prog.argv)
    if om.kind == "crash":
        raise Failure("c13:crash:%s:%s" % (type(om.exc).__name__, om.where), "macro version crashes the compiler: %r\n%s" % (om, src_m), replay)
    if oi.kind == "crash":
        shard.event("inlined_version_crashes_(C18)")
        return
    if om.accepted != oi.accepted:
        who = "inlined accepted, macro version rejected" if oi.accepted else "macro version accepted, inlined rejected"
        msg = (om.msg if not om.accepted else oi.msg) or ""
        raise Failure("c13:verdict-differs:" + msg.split("\n")[0][:40].strip().replace(" ", "-"),
                      "%s: %r vs %r\n--- with macros:\n%s\n--- inlined:\n%s" % (who, om, oi, src_m, src_i), replay)
    if not om.accepted:
        shard.event("both_rejected")
        return
    shard.event("programs")
    mm, mi = am_mod.Machine(om.compiled), am_mod.Machine(oi.compiled)
    alphabet = walk.representatives(ir.byte_alphabet(inl), cap=5)
    for b in (0x3b, 0x7a):
        if b not in alphabet:
            alphabet.append(b)

    def visit(word, tls, cfgs):
        shard.event("evaluations")
        a, b = tls
        if a.events != b.events or a.terminal != b.terminal or a.final != b.final:
            raise Failure("c13:behaviour-differs", "input %s:\n macro version events=%r terminal=%r final=%r\n inlined        events=%r terminal=%r final=%r\n--- with macros:\n%s"
                          % (word.hex(), a.events[-5:], a.terminal, a.final, b.events[-5:], b.terminal, b.final, src_m), dict(replay, input=word.hex()))
    try:
        walk.joint_walk([mm, mi], alphabet, max_len, visit, node_cap=3000)
    except am_mod.Undefined:
        pass
    depth = max((nesting_depth(macros_ir, n) for n in macros_ir), default=0)
    kinds = set(pk for ps, _ in macros_ir.values() for pk, _ in ps)
    if depth >= 1 and len(kinds) >= 2:
        shard.nontriv(src_m)
        shard.event("class:nested_call_two_kinds")
    if len(shard.samples) < 2 and depth >= 1:
        shard.sample({"with_macros": src_m, "inlined": src_i, "argv": prog.argv})


# ------------------------------------------------------------------ negative cases

@st.composite
def negative_case(draw):
    kind = draw(st.sampled_from(["arity", "wrong-kind", "recursive", "mutual"]))
    decl = "out int n0 = 0;\nout str[4] s0;\nhook h0;\nfinishcode F0;\n"
    if kind == "arity":
        k = draw(st.integers(0, 3))
        params = ", ".join("expr p%d" % i for i in range(k))
        nargs = draw(st.sampled_from([x for x in range(0, 5) if x != k]))
        args = ", ".join(["1"] * nargs)
        return kind, decl + "macro m(%s) { \"a\"; }\nparser { m(%s); \"b\"; }\n" % (params, args)
    if kind == "wrong-kind":
        pk = draw(st.sampled_from(["macro", "out", "hook", "loop", "finishcode", "match", "expr"]))
        wrong = {"macro": ['"a"', "5", "/a/", "n0", "h0"], "out": ['"a"', "5", "[1 + 1]", "h0", "F0"], "hook": ['"a"', "5", "n0", "F0"],
                 "loop": ['"a"', "5", "n0", "h0"], "finishcode": ['"a"', "5", "n0", "h0"], "match": ["5", "[1 + 1]", "true", "'a'"],
                 "expr": ["/a/", '"a"i', '"61"b', "end", '("a" "b")']}[pk]
        arg = draw(st.sampled_from(wrong))
        use = {"macro": "p();", "out": "p = 1;", "hook": "p();", "loop": '"x";', "finishcode": "finish p;", "match": "p;", "expr": "n0 = p;"}[pk]
        return kind, decl + "macro m(%s p) { \"a\"; %s \"c\"; }\nparser { m(%s); \"b\"; }\n" % (pk, use, arg)
    if kind == "recursive":
        return kind, decl + "macro m() { \"a\"; m(); }\nparser { m(); }\n"
    return kind, decl + "macro m1() { \"a\"; m2(); }\nmacro m2() { \"b\"; m1(); }\nparser { m1(); }\n"


def check_negative(shard, kind, src):
    out = front.compile_src(src, ["-O1"])
    shard.event("evaluations")
    shard.event("negative:" + kind)
    if out.accepted:
        raise Failure("c13:negative-accepted:" + kind, "must be a diagnosed error but was accepted:\n%s" % src, {"source": src, "argv": ["-O1"]})
    if out.kind != "diagnosed":
        raise Failure("c13:negative-crash:%s:%s" % (kind, type(out.exc).__name__), "%r\n%s" % (out, src), {"source": src, "argv": ["-O1"]})
    shard.nontriv("neg" + src)


@st.composite
def case_strategy(draw):
    if draw(st.integers(0, 5)) == 0:
        return ("neg", draw(negative_case()))
    return ("pos", draw(macro_program()))


def worker(job):
    seed, n, known, stop_at, max_len = job
    shard = Shard()

    def body(val):
        kind, v = val
        if kind == "neg":
            check_negative(shard, *v)
        else:
            check_program(shard, v[0], v[1], max_len)

    common.hyp_run(shard, body, case_strategy(), n, seed, known_keys=known, stop_at=stop_at)
    return shard


def corpus_worker(job):
    shard = Shard()
    for path in job:
        src = open(path).read()
        shard.event("corpus_macro_files")
        o = front.compile_src(src, ["-O3"] if "args:" not in src.splitlines()[0] else __import__("shlex").split(src.splitlines()[0][len("// args: "):]))
        if not o.accepted:
            shard.failures.append({"sig": "c13:corpus-macro-file-rejected", "what": "%s: %r" % (path, o), "replay": {"source": src}})
    return shard


def main(ctx):
    quick = ctx.tier == "quick"
    known = tuple(ctx.open_keys)
    ctx.pmap(corpus_worker, [[os.path.join(common.REPO, "example", "test", "macro.ok.nmfu"), os.path.join(common.REPO, "example", "gtfs-realtime.nmfu")]])
    n = 250 if quick else 3000
    stop_at = time.time() + (75 if quick else 900)
    ctx.pmap(worker, [(ctx.seed * 100003 + i, n, known, stop_at, 4 if quick else 6) for i in range(common.NPROC)])
    ctx.rule = ("case = IR program with 1-4 macros (all parameter kinds, pass-through incl. same-named parameters, nesting <= 3) printed with macros "
                "and hand-inlined; verdicts must agree and, if accepted, the two abstract machines must behave identically (events, terminal, outputs, "
                "positions) on every input up to length 4 (quick) / 6 (thorough) over the program's byte classes (evaluations = compilations + walk "
                "nodes); plus negative cases (arity, each wrong argument kind, recursion) that must be diagnosed. Non-trivial: a macro call nested in "
                "another macro's body with >= 2 parameter kinds in play; distinct by source.")
    ctx.assumptions = ["parameter names never equal global names (the reference calls that clash undefined)",
                       "the inliner is this check's own IR substitution"]
    ctx.required_classes = ["programs", "class:nested_call_two_kinds", "negative:arity", "negative:wrong-kind", "negative:recursive"]


def replay(ctx, data):
    rp = data["replay"]
    print(rp.get("with_macros") or rp.get("source"))
    return 0
