"""
C11 - every accepted program compiles cleanly in every option combination.

case = (option combination over ~17 code-generation flags + -O level + range length, generated program that uses
what the options allow).  For every accepted case:
  gcc  -std=c99 -Wall -Werror -Wno-unused-label -c   (source)
  gcc  -std=c11 ...                                   (source)
  clang -std=c11 -Wall -Werror -Wno-unused-label -c   (source)
  a TU containing only #include "p.h" twice           (header self-contained, guard works)
  g++ -fsyntax-only on a C++ TU including the header  (valid C++; with or without the extern "C" guard)
  declared API scraped from the header == API computed from (program, options)
Pair coverage of the flag combinations actually exercised is measured and reported.
"""
import glob
import itertools
import json
import os
import re
import subprocess
import time

from hypothesis import strategies as st

from vlib import common, crun, front, gen
from vlib.common import Failure, Shard

FLAGS = ["eof-support", "yield-support", "allocate-str-space-dynamic", "allocate-str-space-dynamic-on-demand",
         "delete-string-free-memory", "hook-per-state", "strings-as-u8", "use-packed-enums", "strict-done-token-generation",
         "indirect-start-ptr", "zero-len-input-support", "unsafe-string-indexing", "include-user-ptr", "use-pragma-once",
         "no-use-cplusplus-guard", "collapse-transition-ranges", "no-remove-inaccesible-states"]


def run_cc(cmd, cwd):
    r = subprocess.run(cmd, cwd=cwd, capture_output=True, text=True)
    return r.returncode, (r.stdout + r.stderr)


def expected_api(comp):
    n = comp.name
    U = n.upper()
    funcs = {n + "_start", n + "_feed"}
    if comp.do("EOF_SUPPORT"):
        funcs.add(n + "_end")
    if comp.do("DYNAMIC_MEMORY"):
        funcs.add(n + "_free")
    hooks = list(comp.dctx.hooks)
    if comp.do("HOOK_GLOBAL"):
        for h in hooks:
            funcs.add("%s_%s_hook" % (n, h))
    enums = {U + "_OK", U + "_FAIL", U + "_DONE"}
    enums |= {U + "_FINISH_" + c for c in comp.dctx.finish_codes}
    enums |= {U + "_YIELD_" + c for c in comp.dctx.yield_codes}
    members = set()
    for o in comp.dctx.state_object_spec.values():
        if o.holds_buflike():
            members.add(o.name + "_counter")
    if comp.do("HOOK_PER_STATE"):
        for h in hooks:
            members.add(h + "_hook")
    if comp.do("INCLUDE_USER_PTR"):
        members.add("userptr")
    members.add("state")
    return funcs, enums, members


def scrape_api(header, name):
    U = name.upper()
    funcs = set(re.findall(r"\b(%s_[A-Za-z0-9_]+)\s*\(" % re.escape(name), header))
    funcs = {f for f in funcs if not f.endswith("_t")}
    m = re.search(r"enum[^{]*%s_result\s*\{(.*?)\};" % re.escape(name), header, re.S)
    enums = set(re.findall(r"\b(%s_[A-Z0-9a-z_]+)\b" % U, m.group(1))) if m else set()
    m = re.search(r"struct %s_state\s*\{(.*?)\n\};" % re.escape(name), header, re.S)
    members = set()
    if m:
        body = m.group(1)
        # drop the nested struct { ... } c;
        body2 = re.sub(r"struct \{.*?\} c;", "", body, flags=re.S)
        for line in body2.splitlines():
            mm = re.search(r"([A-Za-z_][A-Za-z0-9_]*)\s*;\s*$", line.strip())
            if mm:
                members.add(mm.group(1))
    return funcs, enums, members


def check_case(shard, prog, argv, workdir):
    src = prog if isinstance(prog, str) else prog.source()
    replay = {"source": src, "argv": argv}
    shard.event("cases_generated")
    out = front.compile_src(src, argv)
    if out.kind == "crash":
        shard.event("compiler_crash_(C18)")
        return False
    if not out.accepted:
        shard.event("rejected")
        return False
    comp = out.compiled
    shard.event("evaluations")
    sub = os.path.join(workdir, "c")
    os.makedirs(sub, exist_ok=True)
    n = comp.name
    with open(os.path.join(sub, n + ".h"), "w") as f:
        f.write(comp.header)
    with open(os.path.join(sub, n + ".c"), "w") as f:
        f.write(comp.source)
    with open(os.path.join(sub, "hdr.c"), "w") as f:
        f.write('#include "%s.h"\n#include "%s.h"\n%s_state_t the_state;\nint hdr_only(void) { return (int)sizeof(the_state) + (int)%s_OK; }\n' % (n, n, n, n.upper()))
    with open(os.path.join(sub, "hdr.cpp"), "w") as f:
        f.write('#include "%s.h"\n#include "%s.h"\nstatic %s_state_t the_state;\nint hdr_cpp() { %s_result_t r = %s_start(&the_state); return (int)r; }\n' % (n, n, n, n, n))
    W = ["-Wall", "-Werror", "-Wno-unused-label"]
    jobs = [
        ("gcc-c99", ["gcc", "-std=c99"] + W + ["-c", n + ".c", "-o", "a.o"]),
        ("gcc-c11", ["gcc", "-std=c11"] + W + ["-c", n + ".c", "-o", "b.o"]),
        ("clang-c11", ["clang", "-std=c11"] + W + ["-c", n + ".c", "-o", "c.o"]),
        ("header-alone", ["gcc", "-std=c99"] + W + ["-c", "hdr.c", "-o", "d.o"]),
        ("header-c++", ["g++", "-std=c++11", "-Wall", "-Werror", "-fsyntax-only", "hdr.cpp"]),
    ]
    for label, cmd in jobs:
        rc, msg = run_cc(cmd, sub)
        if rc != 0:
            first = next((l for l in msg.splitlines() if "error" in l), msg[:200])
            kind = re.sub(r"[^a-zA-Z\-\[\]=]+", " ", first.split("error:")[-1]).strip()[:60]
            raise Failure("c11:%s:%s" % (label, kind), "%s failed:\n%s" % (" ".join(cmd), msg[-1500:]), replay)
    want = expected_api(comp)
    got = scrape_api(comp.header, n)
    names = ("functions", "result enumerators", "state members")
    for nm, w, g in zip(names, want, got):
        if w != g:
            raise Failure("c11:api:" + nm.replace(" ", "-"), "declared %s differ: expected %s, header has %s (missing %s, unexpected %s)"
                          % (nm, sorted(w), sorted(g), sorted(w - g), sorted(g - w)), replay)
    return True


@st.composite
def case_strategy(draw):
    on = [f for f in FLAGS if draw(st.integers(0, 2)) == 0]
    # legality per the CLI: in-struct is only excluded when dynamic storage is requested (handled by the resolver)
    argv = [draw(st.sampled_from(gen.OPT_LEVELS))]
    for f in on:
        argv.append("-f" + f)
    if "collapse-transition-ranges" in on or draw(st.integers(0, 3)) == 0:
        argv += ["--collapsed-range-length", str(draw(st.sampled_from([0, 1, 2, 4, 6])))]
    yld = "yield-support" in on
    eof = "eof-support" in on
    cfg = gen.GenConfig(max_depth=2, max_stmts=6, allow_yield=yld, allow_end=eof, n_strs=(0, 3), n_raws=(0, 1), n_enums=(0, 1), n_hooks=(0, 2),
                        n_fcodes=(0, 2), kinds={"yield": 2 if yld else 0, "finish": 2}, wide_bytes=0.3, tame_conditions=True)
    if eof and not yld and draw(st.booleans()):
        # programs that really use `end` (statement, case clause, handler) followed by all kinds of actions
        from checks.c17 import eof_program
        prog, _ = draw(eof_program(with_appendc=True, tame_conditions=True))
        return prog, argv, tuple(sorted(on))
    prog = draw(gen.program(cfg))
    return prog, argv, tuple(sorted(on))


def worker(job):
    seed, n, known, stop_at = job
    shard = Shard()
    wd = crun.new_workdir("c11")
    pairs = set()

    def body(val):
        prog, argv, on = val
        kinds = set()
        if check_case(shard, prog, argv, wd):
            onset = set(on)
            for a, b in itertools.combinations(range(len(FLAGS)), 2):
                pairs.add((a, b, FLAGS[a] in onset, FLAGS[b] in onset))
            from vlib import ir
            kinds = ir.kinds(prog.body)
            if len(on) >= 3 and len(kinds) >= 4:
                shard.nontriv(prog.source() + repr(argv))
            for k in kinds:
                shard.event("stmt:" + k)
            if len(shard.samples) < 2 and len(on) >= 4:
                shard.sample({"argv": argv, "source": prog.source()})

    try:
        common.hyp_run(shard, body, case_strategy(), n, seed, known_keys=known, stop_at=stop_at)
    finally:
        crun.drop_workdir(wd)
    shard.extra["pairs"] = [list(p) for p in pairs]
    return shard


ODD_INTS = [0, 1, -1, 127, 128, 255, 256, 300, -128, -129, 32767, 32768, 65535, 65536, 2147483647, 2147483648, 4294967295, 4294967296, -2147483648, -2147483649,
            9223372036854775807, 9223372036854775808, 18446744073709551615, -9223372036854775808]
ODD_NAMES = ["yield", "a", "a_b", "ok", "done", "fail", "x", "A", "finish_x", "y"]
ODD_VALUES = ["x", "B_c", "c", "OK", "done", "y", "q", "b_c", "X", "FAIL"]


@st.composite
def odd_decl_source(draw):
    """Declarations at the edges of what the compiler accepts: integer constants at and beyond every width (as default, assigned, compared, appended),
    and output / enumerator / result-code names that may run into each other once they are turned into C identifiers."""
    lines = []
    stmts = ['"a";']
    w = draw(st.sampled_from(["", "{unsigned}", "{size 1}", "{unsigned, size 1}", "{size 2}", "{unsigned, size 2}", "{size 4}", "{unsigned, size 4}", "{size 8}", "{unsigned, size 8}"]))
    k = lambda: str(draw(st.sampled_from(ODD_INTS)))      # noqa: E731
    lines.append("out int%s v%s;" % (w, (" = " + k()) if draw(st.booleans()) else ""))
    lines.append("out str[4] s;")
    lines.append("hook h;")
    for _ in range(draw(st.integers(1, 3))):
        # (comparisons only with small constants: a comparison that the declared width makes always true / false draws clang's tautology
        #  warning, which is about the user's expression, transcribed faithfully)
        stmts.append(draw(st.sampled_from(["v = %s;", "v = [%s];", "s += [%s];", "v = [v + %s];", "v = [%s];"])) % k() if draw(st.integers(0, 3)) > 0
                     else draw(st.sampled_from(["if v == %s { h(); }", "if v < %s { h(); }", "if %s > v { \"k\"; }"])) % draw(st.sampled_from(["1", "2", "100"])))
    used = set(["v", "s", "h"])
    if draw(st.integers(0, 2)) > 0:
        for _ in range(draw(st.integers(1, 2))):
            name = draw(st.sampled_from(ODD_NAMES))
            if name in used:
                continue
            used.add(name)
            vals = draw(st.lists(st.sampled_from(ODD_VALUES), min_size=2, max_size=3, unique=True))
            lines.append("out enum{%s} %s;" % (",".join(vals), name))
            stmts.append("%s = %s;" % (name, vals[-1]))
    argv = [draw(st.sampled_from(gen.OPT_LEVELS))]
    if draw(st.booleans()):
        codes = draw(st.lists(st.sampled_from(["x", "c", "y", "B_c"]), min_size=1, max_size=2, unique=True))
        lines.append("finishcode %s;" % ", ".join(codes))
        stmts.append("if v == 1 { finish %s; }" % codes[0])
    if draw(st.booleans()):
        codes = draw(st.lists(st.sampled_from(["x", "c", "y", "q"]), min_size=1, max_size=2, unique=True))
        lines.append("yieldcode %s;" % ", ".join(codes))
        stmts.append("yield %s;" % codes[0])
        argv.append("-fyield-support")
    stmts.append('"z";')
    if draw(st.integers(0, 3)) == 0:
        argv.append("-fuse-packed-enums")
    return "\n".join(lines) + "\nparser {\n    " + "\n    ".join(stmts) + "\n}\n", argv


def odd_worker(job):
    seed, n, known = job
    shard = Shard()
    wd = crun.new_workdir("c11o")

    def body(val):
        src, argv = val
        if check_case(shard, src, argv, wd):
            shard.event("odd_decl_accepted")
            shard.nontriv(src + repr(argv))
        shard.event("odd_decl_cases")

    try:
        common.hyp_run(shard, body, odd_decl_source(), n, seed, known_keys=known)
    finally:
        crun.drop_workdir(wd)
    return shard


def regress_worker(job):
    path, known = job
    shard = Shard()
    wd = crun.new_workdir("c11r")
    try:
        with open(path) as fh:
            d = json.load(fh)
        try:
            check_case(shard, d["source"], d["argv"], wd)
        except Failure as f:
            if f.sig in known:
                shard.known_hits[f.sig] += 1
            else:
                shard.failures.append({"sig": f.sig, "what": "regression case %s: %s" % (path, f.what), "replay": f.replay})
    finally:
        crun.drop_workdir(wd)
    shard.event("regression_cases")
    return shard


def corpus_worker(job):
    path, argv, known = job
    shard = Shard()
    wd = crun.new_workdir("c11c")
    try:
        with open(path) as fh:
            src = fh.read()
        first = src.splitlines()[0] if src else ""
        import shlex
        extra = shlex.split(first[len("// args: "):]) if first.startswith("// args: ") else []
        try:
            check_case(shard, src, extra + argv, wd)
        except Failure as f:
            if f.sig in known:
                shard.known_hits[f.sig] += 1
            else:
                shard.failures.append({"sig": f.sig, "what": "corpus file %s with %r: %s" % (path, argv, f.what), "replay": f.replay})
    finally:
        crun.drop_workdir(wd)
    shard.event("corpus_cases")
    return shard


CORPUS_ARGV = [["-O0"], ["-O3"], ["-O2", "-fallocate-str-space-dynamic-on-demand", "-fhook-per-state", "-fuse-packed-enums", "-fstrings-as-u8"],
               ["-O1", "-fallocate-str-space-dynamic", "-fdelete-string-free-memory", "-findirect-start-ptr", "-fstrict-done-token-generation",
                "-fzero-len-input-support", "-finclude-user-ptr", "-fuse-pragma-once", "-fno-use-cplusplus-guard", "--collapsed-range-length", "2"]]


def main(ctx):
    quick = ctx.tier == "quick"
    known = tuple(ctx.open_keys)
    reg = sorted(glob.glob(os.path.join(common.VERIF_DIR, "regress", "C11", "*.json")))
    ctx.pmap(regress_worker, [(p, known) for p in reg])
    repo = common.REPO
    corpus = sorted(glob.glob(os.path.join(repo, "example", "*.nmfu")) + glob.glob(os.path.join(repo, "example", "test", "*.ok.nmfu")))
    ctx.pmap(corpus_worker, [(p, a, known) for p in corpus for a in (CORPUS_ARGV[:2] if quick else CORPUS_ARGV)])
    ctx.pmap(odd_worker, [(ctx.seed * 100003 + 300 + i, 12 if quick else 150, known) for i in range(8)])
    n = 120 if quick else 2000
    stop_at = time.time() + (75 if quick else 900)
    ctx.pmap(worker, [(ctx.seed * 100003 + i, n, known, stop_at) for i in range(common.NPROC)])
    pairs = set(tuple(p) for p in ctx.total.extra.pop("pairs", []))
    total_pairs = len(FLAGS) * (len(FLAGS) - 1) // 2 * 4
    ctx.total.extra["flag_pair_coverage"] = "%d of %d (flag,flag,value,value) combinations exercised on accepted cases" % (len(pairs), total_pairs)
    ctx.rule = ("case = (random subset of %d code-generation flags + -O level + range length, generated program using what the flags allow) plus "
                "the repository's example corpus under 2 (quick) / 4 (thorough) option sets; evaluations = accepted cases put through the five "
                "compiler runs and the API scrape; plus a family of declarations at the edges (integer constants at and beyond every width as default / assigned / compared / appended; "
                "output, enumerator and result-code names that may collide once turned into C identifiers). Non-trivial: >= 3 non-default flags and >= 4 distinct statement kinds; distinct by (source, argv)." % len(FLAGS))
    ctx.assumptions = ["gcc 12 and clang 14 on x86-64 only", "unused labels are excepted as the property states"]
    ctx.required_classes = ["evaluations", "corpus_cases", "odd_decl_accepted"]


def replay(ctx, data):
    rp = data["replay"]
    print(rp["source"])
    print(rp["argv"])
    return 0
