"""
C04 - feed and end always return: no input makes a generated parser spin.

For every accepted generated program (biased to handlers that lead back to the construct that raised, loops,
tiny strings, case-else chains, yields in loops) the reachable configuration graph (machine state x output values)
is explored breadth-first from start() over the program's byte-class representatives (and end-of-input), with an
exact configuration-repeat detector inside every single dispatch (abstract machine).  A repeat without consuming
input is a concrete non-termination witness (the BFS path); it is confirmed by feeding that input to the gcc-built
C parser under alarm().  Only confirmed witnesses are violations.
"""
import collections
import glob
import json
import os
import time

from hypothesis import strategies as st

import nmfu
from vlib import am as am_mod
from vlib import common, crun, front, gen, inputs, ir, options, trace, walk
from vlib.common import Failure, Shard


def nonconsuming_cycle(m):
    """Is there a cycle among non-consuming moves (fallthrough, conditions, overflow / break targets)?"""
    edges = collections.defaultdict(set)
    for s in m.states:
        for t in s.transitions:
            tg = []
            if t.is_fallthrough or isinstance(t, nmfu.DFConditionalTransition):
                tg.append(t.target)
            for a in t.actions:
                for sub in a.all_subactions():
                    tg.extend(sub.get_target_override_targets())
                    if sub.may_return_early():
                        tg.append(t.target)
            for x in tg:
                if x is not None:
                    edges[id(s)].add(id(x))
    color = {}

    def dfs(u):
        color[u] = 1
        for v in edges.get(u, ()):
            c = color.get(v, 0)
            if c == 1:
                return True
            if c == 0 and dfs(v):
                return True
        color[u] = 2
        return False
    return any(color.get(id(s), 0) == 0 and dfs(id(s)) for s in m.states)


def spin_kind(m):
    """Root-cause class of a spin just raised by m.feed, from the out-of-space redirects it performed."""
    if not m.overflow_log:
        # a cycle that only exists under a data condition (a break inside an action-only if takes part in it): the compile-time check
        # cannot see it (open finding); every other cycle without an out-of-space redirect should have been rejected
        if m.cond_break_log:
            return "conditional-break-cycle"
        # a mismatch handed on through two or more handlers on one byte (an inner handler that fails itself): the compile-time check follows a
        # fall-through chain only while every symbol of the first transition stays together, and misses the cycle that exists for one of them
        # (open finding); cycles without any of these ingredients should have been rejected
        return "nested-handler-cycle" if len(set(id(x) for x in m.handler_log)) >= 2 else "no-overflow"
    # An out-of-space redirect takes part in the cycle.  Whether the cycle closes through a loop statement's repeat (the open
    # finding: the handler completes and the loop re-enters the append) or not (e.g. a catch block re-entering itself, fixed)
    # is decided on the source by the caller.
    return "overflow-cycle"


def explore(m, alphabet, node_cap, with_end):
    """BFS over reachable configurations; returns (witness or None, stats). witness = (word bytes, kind)"""
    stats = {"configs": 0, "dispatches": 0, "undefined": 0}
    try:
        cfg0, tl0 = walk.start_timeline(m)
    except am_mod.Undefined:
        return None, stats
    if tl0.terminal is not None:
        return None, stats
    seen = {cfg0.key()}
    queue = collections.deque([(cfg0, b"")])
    while queue:
        cfg, word = queue.popleft()
        if with_end:
            c2 = cfg.copy()
            try:
                stats["dispatches"] += 1
                m.end(c2)
            except am_mod.Spin:
                return (word, "end"), stats
            except am_mod.Undefined:
                stats["undefined"] += 1
        for sym in alphabet:
            c2 = cfg.copy()
            tl = walk.Timeline()
            stats["dispatches"] += 1
            try:
                walk.step_timeline(m, c2, tl, len(word), sym)
            except am_mod.Spin:
                return (word + bytes([sym]), "feed:" + spin_kind(m)), stats
            except am_mod.Undefined:
                stats["undefined"] += 1
                continue
            except am_mod.Broken as e:
                return (word + bytes([sym]), "broken:" + str(e)), stats
            if tl.terminal is not None:
                continue
            k = c2.key()
            if k in seen:
                continue
            seen.add(k)
            stats["configs"] += 1
            if stats["configs"] >= node_cap:
                stats["capped"] = True
                return None, stats
            queue.append((c2, word + bytes([sym])))
    return None, stats


def check_program(shard, prog, argv, node_cap=1500, alphabet=None, extra_inputs=()):
    src = prog if isinstance(prog, str) else prog.source()
    replay = {"source": src, "argv": argv}
    shard.event("programs_generated")
    out = front.compile_src(src, argv)
    if not out.accepted:
        shard.event("rejected:" + (type(out.exc).__name__ if out.exc is not None else out.kind))
        return
    comp = out.compiled
    shard.event("programs")
    m = am_mod.Machine(comp, max_steps=5000)
    if alphabet is None:
        if isinstance(prog, str):
            good, err = inputs.next_labels(m, m.dfa.starting_state, limit=400)
            alphabet = (good + [0x7a])[:6]
        else:
            alphabet = walk.representatives(ir.byte_alphabet(prog), cap=5)
            if 0x7a not in alphabet:
                alphabet.append(0x7a)
    cyc = nonconsuming_cycle(m)
    witness, stats = explore(m, alphabet, node_cap, comp.do("EOF_SUPPORT"))
    shard.event("evaluations", stats["dispatches"])
    shard.event("configs", stats["configs"])
    if cyc:
        shard.event("class:nonconsuming_cycle")
        shard.nontriv(src)
    if stats.get("capped"):
        shard.event("bfs_capped")
    if witness is None:
        if len(shard.samples) < 2 and cyc:
            shard.sample({"source": src, "argv": argv, "alphabet": alphabet, "configs": stats["configs"], "dispatches": stats["dispatches"]})
        c_only_stage(shard, m, comp, src, argv, extra_inputs)
        return
    word, kind = witness
    if kind.endswith("overflow-cycle"):
        kind += "-through-loop" if "loop" in src else "-without-loop"
    if kind.startswith("broken"):
        raise Failure("c04:machine-broken", "input %s: %s" % (word.hex(), kind), dict(replay, input=word.hex()))
    # ---- confirm on the C binary
    try:
        binary = crun.Binary(comp)
    except crun.BuildError as e:
        raise Failure("c04:c-build-error", str(e)[-1000:], replay)
    try:
        chunks = [word[i:i + 1] for i in range(len(word))]
        sc = trace.script_for(chunks, call_end=(kind == "end"), call_free=False, move=False)
        where = "end()" if kind == "end" else "the last byte is dispatched for ever"
        rc, outp, err = binary.run_raw(sc, timeout=30)
        hung = (rc == 3) or ("HANG" in outp) or ("YIELDSPIN" in outp)
        if hung:
            raise Failure("c04:spin:" + kind, "the generated parser does not return: input %s (%s), then %s\nlast driver output:\n%s"
                          % (word.hex(), word, where, outp[-300:]),
                          dict(replay, input=word.hex(), where=kind))
        shard.event("am_spin_not_confirmed_in_c")
        shard.notes.append("note: AM spin not confirmed by C for %r input %s" % (src[:80], word.hex()))
    finally:
        binary.close()


def c_only_stage(shard, m, comp, src, argv, extra_inputs):
    """The machine itself has no reachable spin: the emitted C must not have one either (a yield that returns without the pointer having
    moved, a goto that re-enters its own state).  Guided inputs on which the abstract machine terminates are run through the gcc-built parser, every
    call under alarm() and with a bound on consecutive yields from one position."""
    yields = comp.do("YIELD_SUPPORT")
    if not yields and not extra_inputs and common.stable_hash(src)[0] not in "0123":
        return
    datas = [bytes(d) for d in extra_inputs]
    for ch in ([3, 1, 4, 1, 5, 9, 2, 6, 5, 3, 5, 8], [0] * 12, [1, 0, 2, 0, 1, 3, 0, 1, 1, 2], [7, 7, 7, 1, 7, 7, 2, 7]):
        d = inputs.guided_input(m, ch, max_len=14)
        if d:
            datas.append(bytes(d))
    ok = []
    for d in datas[:10]:
        try:
            trace.am_calls(m, [d[j:j + 1] for j in range(len(d))], call_end=comp.do("EOF_SUPPORT"), indirect=comp.do("INDIRECT_START_PTR"))
        except (am_mod.Undefined, am_mod.Spin, am_mod.Broken):
            continue
        if d not in ok:
            ok.append(d)
    if not ok:
        return
    replay = {"source": src, "argv": argv}
    try:
        binary = crun.Binary(comp, tag="c4")
    except crun.BuildError as e:
        raise Failure("c04:c-build-error", str(e)[-1000:], replay)
    try:
        for d in ok:
            for chunks in ([d[j:j + 1] for j in range(len(d))], [d]):
                sc = trace.script_for(chunks, call_end=comp.do("EOF_SUPPORT"), call_free=False, move=False)
                rc, outp, err = binary.run_raw(sc, timeout=40)
                shard.event("c_only_runs")
                if rc == 3 or "HANG" in outp or "YIELDSPIN" in outp:
                    what = "yields for ever without consuming" if "YIELDSPIN" in outp else "does not return"
                    raise Failure("c04:spin:c-only:" + ("yield" if "YIELDSPIN" in outp else "call"),
                                  "the abstract machine terminates on input %s (%s), the generated parser %s (%s)\nlast driver output:\n%s"
                                  % (d.hex(), d, what, "byte per call" if len(chunks) > 1 else "one chunk", outp[-300:]), dict(replay, input=d.hex()))
    finally:
        binary.close()


@st.composite
def focused_program(draw):
    """Handlers that lead back to the construct that raised, inside loops, around tiny buffers."""
    size = draw(st.sampled_from([1, 2, 2, 3]))
    term = draw(st.booleans()) and size > 1
    outs = [("str", "s0", size, term, None, False), ("int", "n0", False, 1, 0)]
    cfg = gen.GenConfig(max_depth=1, max_stmts=3, n_strs=(0, 0), n_ints=(0, 0), n_hooks=(0, 0), n_fcodes=(0, 0),
                        kinds={"append": 8, "appendc": 4, "match": 4, "assign": 2, "delete": 1, "case": 2, "if": 1, "ifact": 2, "try": 2,
                               "loop": 0, "optional": 1, "foreach": 1, "hook": 0, "finish": 0, "wait": 0, "assignstr": 1}, wide_bytes=0.0)
    prog = ir.Program(outs, [], [], [], [], (), [draw(st.sampled_from(gen.OPT_LEVELS))])
    env = gen.Env(prog, cfg)
    env.loops.append(None)
    inner = draw(gen.body(env, 1, 1, 3, allow_terminal=False))
    handler_kind = draw(st.sampled_from(["empty", "actions", "consuming", "delete", "break"]))
    if handler_kind == "empty":
        handler = ()
    elif handler_kind == "actions":
        handler = (("assign", "n0", ("bin", "+", ("var", "n0"), ("num", 1, "dec"))),)
    elif handler_kind == "delete":
        handler = (("delete", "s0"),)
    elif handler_kind == "break":
        handler = (("break", None),)
    else:
        handler = draw(gen.body(env, 0, 1, 2, allow_terminal=False))
    reasons = draw(st.sampled_from([None, ("outofspace",), ("nomatch",), ("nomatch", "outofspace")]))
    stmts = [("try", reasons, inner, handler)]
    plain = draw(st.integers(0, 3)) == 0
    if plain:
        # no handler at all: the loop body is just the case below (plus whatever trails it)
        stmts = []
    if plain or draw(st.booleans()):
        stmts.append(("case", False, (((("lit", b";", "str"),), None, ()), (("else",), None, (("break", None),)))))
        if draw(st.booleans()):
            # an action behind the case: it lands behind the break on the else transition
            stmts.append(("assign", "n0", ("bin", "+", ("var", "n0"), ("num", 1, "dec"))))
    if draw(st.integers(0, 3)) == 0:
        stmts.insert(0, ("appendc", "s0", ("num", 65, "dec")))
    loop = ("loop", None, tuple(stmts))
    outer = draw(st.sampled_from(["none", "try", "loop", "loop-bare", "lead-try", "lead-case", "lead-optional"]))
    if outer == "loop-bare":
        # leaving the inner loop re-enters it without consuming anything (only legal if every way out consumes)
        body = (("loop", "outer", (loop,)),)
    elif outer == "try":
        body = (("try", None, (loop,), ()),)
    elif outer == "loop":
        body = (("loop", "outer", (loop, ("match", ("lit", b"!", "str")))),)
    elif outer == "lead-try":
        # a construct that falls through into the loop head on a mismatch
        body = (("try", ("nomatch",), (("match", ("lit", b"x", "str")),), ()), loop)
    elif outer == "lead-case":
        body = (("case", False, (((("lit", b"x", "str"),), None, ()), (("else",), None, ()))), loop)
    elif outer == "lead-optional":
        body = (("optional", (("match", ("lit", b"x", "str")),)), loop)
    else:
        body = (loop,)
    prog.body = body
    return prog


@st.composite
def case_strategy(draw):
    if draw(st.integers(0, 7)) == 0:
        # an append that may overflow and a yield on one transition, often inside a loop: the yield must come with progress
        prog, datas = draw(gen.yield_overflow_program())
        return prog, list(prog.argv) + draw(st.sampled_from([[], ["-findirect-start-ptr"]])), datas
    if draw(st.booleans()):
        prog = draw(focused_program())
        return prog, list(prog.argv)
    mode = draw(st.sampled_from(["plain", "plain", "plain", "yield", "yield", "eof"]))
    cfg = gen.GenConfig(max_depth=3, max_stmts=4, allow_yield=(mode == "yield"), allow_end=(mode == "eof"),
                        n_strs=(1, 2), n_ints=(0, 2), str_sizes=[1, 2, 3],
                        kinds={"yield": 3 if mode == "yield" else 0, "loop": 7, "try": 7, "append": 6, "appendc": 3, "case": 4, "if": 3,
                               "ifact": 3, "match": 4, "optional": 2, "foreach": 2, "delete": 1, "hook": 1, "wait": 1, "finish": 0}, wide_bytes=0.02)
    prog = draw(gen.program(cfg))
    argv = list(prog.argv) + draw(st.sampled_from([[], ["-findirect-start-ptr"], ["-fstrict-done-token-generation"]]))
    return prog, argv


def worker(job):
    seed, n, known, stop_at, cap = job
    shard = Shard()

    def body(val):
        prog, argv = val[0], val[1]
        check_program(shard, prog, argv, node_cap=cap, extra_inputs=val[2][:8] if len(val) > 2 else ())

    common.hyp_run(shard, body, case_strategy(), n, seed, known_keys=known, stop_at=stop_at)
    return shard


def regress_worker(job):
    path, known = job
    shard = Shard()
    with open(path) as fh:
        d = json.load(fh)
    try:
        check_program(shard, d["source"], d["argv"], alphabet=d.get("alphabet"))
    except Failure as f:
        if f.sig in known:
            shard.known_hits[f.sig] += 1
        else:
            shard.failures.append({"sig": f.sig, "what": "regression case %s: %s" % (path, f.what), "replay": f.replay})
    shard.event("regression_cases")
    return shard


def main(ctx):
    quick = ctx.tier == "quick"
    known = tuple(ctx.open_keys)
    reg = sorted(glob.glob(os.path.join(common.VERIF_DIR, "regress", "C04", "*.json")))
    ctx.pmap(regress_worker, [(p, known) for p in reg])
    # every open known finding is re-run from its saved replay (must still fail, else it is reported as stale)
    for key, entry in sorted(ctx.open_keys.items()):
        sh = Shard()
        rp = entry["replay"]
        try:
            check_program(sh, rp["source"], rp["argv"], alphabet=list(bytes.fromhex(rp["input"])) + [0x7a])
            sh.notes.append("note: known finding %s no longer reproduces from its saved replay" % key)
            print("STALE-KNOWN-FINDING: property=C04 %s no longer reproduces" % key)
        except Failure as f:
            if f.sig == key:
                sh.known_hits[key] += 1
            else:
                sh.failures.append({"sig": f.sig, "what": f.what, "replay": f.replay})
        ctx.total.merge(sh)
    n = 150 if quick else 1500
    stop_at = time.time() + (75 if quick else 900)
    ctx.pmap(worker, [(ctx.seed * 100003 + i, n, known, stop_at, 800 if quick else 6000) for i in range(common.NPROC)])
    ctx.rule = ("case = generated program biased to loops/handlers/tiny strings/yields; BFS over reachable (state, outputs) configurations "
                "(cap 800 quick / 6000 thorough) x byte-class representatives (+ end()); evaluations = single dispatches executed with exact "
                "configuration-repeat detection. Non-trivial: the machine has a cycle among its non-consuming moves (fallthrough, condition, "
                "out-of-space redirect, break, yield resume); distinct by source. Witnesses are confirmed on the C binary under alarm().")
    ctx.assumptions = ["termination inside one dispatch is decided on the abstract machine (tied to the C by C06) and confirmed in C",
                       "configurations beyond the BFS cap are not explored"]
    ctx.required_classes = ["programs", "class:nonconsuming_cycle"]


def replay(ctx, data):
    rp = data["replay"]
    print(rp["source"])
    print(rp["argv"], rp.get("input"))
    return 0
