"""
C17 - end-of-input handling follows the EOF contract.

Programs compiled with -feof-support containing `end` as a statement, inside a concatenation, as a case clause (with or
without else), under wait, inside try with a no-match handler, followed by actions (hooks, assignments, finish codes),
plus programs without any `end` pattern.  For every input up to length L over the program's byte classes the abstract
machine is fed byte per call and then end() is called; the reference interpreter (vlib/ri.py) supplies the prescribed
outcome with END as a pseudo-symbol that only `end` patterns consume and that every data pattern mismatches on:
  end() returns DONE if the program had reached its end or an `end` pattern completes it there (running the actions that
  follow), the finish code if those actions finish with one, FAIL otherwise (incomplete, wait pending, ...).
Sampled inputs go through the gcc-built C parser (normal and strict-done builds).
Structural sub-claims are checked on every compiled machine: no `end` transition fires on a byte, no data class
(wildcard, inverted set) fires on END.
"""
import glob
import json
import os
import time

from hypothesis import strategies as st

import nmfu
from vlib import am as am_mod
from vlib import common, crun, front, gen, ir, ri, trace, walk
from vlib.carith import Undefined
from vlib.common import Failure, Shard

OK, FAIL, DONE = 0, 1, 2
DFT = nmfu.DFTransition


def strict_seq(events, hooks_only=False, optional=None, flags=None):
    """optional: indices (into events) of reference events that were pending when a handled error struck; flags (a list) receives one
    bool per produced entry."""
    out = []
    for i, e in enumerate(events):
        k = e[1]
        opt = optional is not None and i in optional
        if k == "hook":
            if any(v == "?" for _, v in e[2][1]):
                out.append(("hook", e[2][0], None))      # outputs uncertain (T3): compare the call only
            else:
                out.append(("hook", e[2][0], e[2][1]))
        elif k == "append" and not hooks_only:
            out.append(("append",) + tuple(e[2]))
        else:
            continue
        if flags is not None:
            flags.append(opt)
    return out


def ev_eq(r, a):
    """reference event vs machine event; a reference hook with outputs None (uncertain, T3) matches any outputs"""
    if r[0] == "hook" and a[0] == "hook" and r[2] is None:
        return r[1] == a[1]
    return r == a


def seq_eq(rs, as_, rflags=None):
    """rflags: per reference entry, True if the machine may have skipped it (pending at a handled error, T3)."""
    if rflags is None:
        return len(rs) == len(as_) and all(ev_eq(r, a) for r, a in zip(rs, as_))
    # can as_ be obtained from rs by dropping some of the optional entries? (small sequences: plain memoised search)
    import functools

    @functools.lru_cache(maxsize=None)
    def go(i, j):
        if i == len(rs):
            return j == len(as_)
        if j < len(as_) and ev_eq(rs[i], as_[j]) and go(i + 1, j + 1):
            return True
        return bool(rflags[i]) and go(i + 1, j)
    return go(0, 0)


def structural_problems(comp):
    """`end` never matches a data byte; data classes never match END."""
    probs = []
    for i, s in enumerate(comp.dfa.states):
        if isinstance(s, nmfu.DFConditionPoint):
            continue
        for t in s.transitions:
            has_end = DFT.End in t.on_values
            has_bytes = any(isinstance(v, str) for v in t.on_values)
            if has_end and not t.error_handling and not t.is_fallthrough and (has_bytes or DFT.Else in t.on_values):
                probs.append("state %d: a transition matches both END and data (%r)" % (i, t))
        # an Else transition that is not error handling must be shadowed for END by an explicit END transition
        else_t = next((t for t in s.transitions if DFT.Else in t.on_values), None)
        if else_t is not None and not else_t.error_handling and not else_t.is_fallthrough:
            if not any(DFT.End in t.on_values for t in s.transitions):
                probs.append("state %d: wildcard / inverted-set transition would also consume END" % i)
    return probs


def expected_end_code(prog, outcome):
    if outcome.terminal is None:
        return FAIL
    if outcome.terminal[0] == "fail":
        return FAIL
    if outcome.terminal[0] == "done":
        return DONE
    code = outcome.terminal[1]
    return DONE if code is None else 3 + prog.fcodes.index(code)


def check_program(shard, prog, argv, max_len, do_c=True):
    src = prog.source()
    replay = {"source": src, "argv": argv}
    shard.event("programs_generated")
    out = front.compile_src(src, argv)
    if not out.accepted:
        shard.event("rejected:" + type(out.exc).__name__)
        return
    comp = out.compiled
    shard.event("programs")
    sp = structural_problems(comp)
    if sp:
        raise Failure("c17:structure", "\n".join(sp[:3]) + "\n" + src, replay)
    m = am_mod.Machine(comp)
    alphabet = walk.representatives(ir.byte_alphabet(prog), cap=4)
    if 0x7a not in alphabet:
        alphabet.append(0x7a)
    words_for_c = []
    has_end_pat = " end" in src or "(end" in src or "end;" in src

    def visit(word, tls, cfgs):
        tl, cfg = tls[0], cfgs[0]
        if tl.terminal is not None:
            return          # finished or failed before the end of the input: C01's business, the driver makes no end() call
        try:
            ref = ri.run(prog, word, call_end=True)
        except (Undefined, ri.Ambiguous, ri.Unsupported):
            shard.event("ri_skipped")
            return
        if ref.terminal is not None and ref.terminal[0] != "fail" and ref.terminal[-1] < len(word):
            return          # reading finished before consuming the whole input
        if ref.terminal is not None and ref.terminal[0] == "fail" and ref.terminal[1] < len(word):
            return
        c2 = cfg.copy()
        try:
            r = m.end(c2)
        except (Undefined, am_mod.Spin):
            shard.event("am_skipped")
            return
        shard.event("evaluations")
        want = expected_end_code(prog, ref)
        # events performed during end() by the machine = machine events of end; the reading's events beyond those already performed
        am_seq = strict_seq([(k, kd, pl) for k, kd, pl in tl.events]) + strict_seq([(len(word), e[0], walk.payload_of(e)) for e in r.events if e[0] in walk.OBSERVABLE])
        ri_flags = []
        ri_seq = strict_seq(ref.events, optional=ref.optional, flags=ri_flags)
        if any(ri_flags):
            shard.event("relaxed:t3_pending_at_handled_error")
        if want == FAIL:
            # actions pending when the error strikes may or may not have run (T3): one sequence must be a prefix of the other
            k_ = min(len(am_seq), len(ri_seq))
            ok = (r.code == want) and seq_eq(ri_seq[:k_], am_seq[:k_])
        else:
            ok = (r.code == want) and seq_eq(ri_seq, am_seq, ri_flags)
        if ok and want != FAIL:
            final = trace.norm_am_vars(c2.frozen_vars())
            if not prog_has_plain_set(prog) and any(v != "?" and final.get(k) != v for k, v in ref.final.items()):
                ok = False
        if not ok:
            kind = "code" if r.code != want else ("events" if not seq_eq(ri_seq, am_seq, ri_flags) else "outputs")
            raise Failure("c17:end-%s:%s" % (kind, "expected-%s" % ("FAIL" if want == FAIL else "DONE" if want == DONE else "FINISH")),
                          "input %s then end(): reading -> code %d events %r final %r\n machine -> code %d events %r\n%s"
                          % (word.hex(), want, ri_seq[-4:], ref.final, r.code, am_seq[-4:], src), dict(replay, input=word.hex()))
        if (has_end_pat or "catch" in src) and len(word) > 0:
            shard.nontriv(src + word.hex())
        if want != FAIL:
            shard.event("class:end_completes")
        else:
            shard.event("class:end_fails")
        if len(words_for_c) < 25 and (sum(word) + len(word)) % 3 == 0:
            hflags = []
            hseq = strict_seq(ref.events, hooks_only=True, optional=ref.optional, flags=hflags)
            words_for_c.append((word, want, (hseq, hflags)))

    try:
        stats = walk.joint_walk([m], alphabet, max_len, visit, node_cap=2500)
    except Undefined:
        return
    if len(shard.samples) < 2 and has_end_pat:
        shard.sample({"source": src, "argv": argv, "alphabet": alphabet, "walk_nodes": stats["nodes"]})
    if do_c and words_for_c:
        for extra in ([], ["-fstrict-done-token-generation"]):
            o2 = front.compile_src(src, argv + ["-findirect-start-ptr"] + extra)
            if not o2.accepted:
                raise Failure("c17:strict-verdict", "%r" % o2, replay)
            try:
                b = crun.Binary(o2.compiled)
            except crun.BuildError as e:
                raise Failure("c17:c-build-error", str(e)[-800:], replay)
            try:
                sc = crun.Script()
                for w, want, hooks in words_for_c:
                    sc.b += trace.script_for([w[i:i + 1] for i in range(len(w))], call_end=True, move=False).b
                rc, outp, err = b.run_raw(sc)
                if rc != 0:
                    raise Failure("c17:c-crash", "rc=%s %s" % (rc, err[-400:]), replay)
                for (w, want, hooks), run in zip(words_for_c, crun.parse_log(outp)):
                    calls = trace.c_calls(run)
                    ends = [c for c in calls if c.kind == "end"]
                    shard.event("c_runs")
                    if not ends:
                        # strict-done may have postponed a DONE to... no: the abstract machine did not terminate on this input
                        if any(c.kind == "feed" and b.info.is_terminal(c.code) for c in calls) and not extra:
                            raise Failure("c17:c-terminated-early", "input %s: C terminated before end() but the machine did not" % w.hex(), dict(replay, input=w.hex()))
                        continue
                    got_hooks = [("hook", h[0], h[2]) for c in calls for h in c.hooks]
                    hooks, hflags = hooks
                    k_ = min(len(got_hooks), len(hooks))
                    hooks_ok = seq_eq(hooks, got_hooks, hflags) if want != FAIL else seq_eq(hooks[:k_], got_hooks[:k_])
                    if ends[0].code != want or not hooks_ok:
                        raise Failure("c17:c-end-%s%s" % ("code" if ends[0].code != want else "hooks", ":strict" if extra else ""),
                                      "input %s then end() through C (%s): expected code %d hooks %r, got code %d hooks %r\n%s"
                                      % (w.hex(), "strict-done" if extra else "normal", want, hooks, ends[0].code, got_hooks, src), dict(replay, input=w.hex(), strict=bool(extra)))
            finally:
                b.close()


def prog_has_plain_set(prog):
    found = []
    ir.walk(prog.body, lambda s: found.append(1) if s[0] in ("assign", "assignstr", "delete") else None)
    return bool(found)


# ------------------------------------------------------------------ generation

@st.composite
def tail_actions(draw, env, with_appendc=False):
    acts = []
    for _ in range(draw(st.integers(0, 2))):
        a = draw(gen.action(env, allow=("hook", "hook", "assign", "finish") + (("appendc",) if with_appendc else ())))
        if a is not None:
            acts.append(a)
            if a[0] == "finish":
                break
    return tuple(acts)


@st.composite
def eof_program(draw, with_appendc=False, tame_conditions=False):
    cfg = gen.GenConfig(max_depth=1, max_stmts=3, n_hooks=(1, 2), n_fcodes=(1, 2), n_strs=(0, 1), n_ints=(0, 1), wide_bytes=0.0,
                        kinds={"finish": 0, "hook": 3, "appendc": 1 if with_appendc else 0, "wait": 0}, allow_greedy=False, tame_conditions=tame_conditions)
    prog = draw(gen.program(cfg))
    env = gen.Env(prog, cfg)
    prefix = prog.body
    # make sure the prefix ends closed so that `end` cannot be confused with its lookahead
    summ = ir.body_summary(prefix, [])
    if summ.tail or summ.nullable:
        prefix = prefix + (("match", ("lit", b";", "str")),)
    shape = draw(st.sampled_from(["stmt", "cat", "case", "case-else", "wait", "try-case", "none", "none-open", "optional-end", "loop-case-end",
                                  "loop-case-end", "try-open-regex", "tail-optional-end", "tail-optional-case-end", "two-tail-optionals"]))
    acts = draw(tail_actions(env, with_appendc))
    if shape == "stmt":
        body = prefix + (("match", ("end",)),) + acts
    elif shape == "cat":
        body = prefix + (("match", ("cat", (("lit", b"q", "str"), ("end",)))),) + acts
    elif shape in ("case", "case-else"):
        clauses = [((("lit", b"x", "str"),), None, draw(tail_actions(env))), ((("end",),), None, acts)]
        if shape == "case-else":
            clauses.append((("else",), None, (("match", ("lit", b"y", "str")),)))
        body = prefix + (("case", False, tuple(clauses)),)
    elif shape == "wait":
        body = prefix + (("wait", ("lit", b"ab", "str")), ("match", ("end",))) + acts
    elif shape == "try-case":
        handler = (("case", False, (((("end",),), None, acts), (("else",), None, (("wait", ("lit", b"!", "str")),) + draw(tail_actions(env))))),)
        body = (("try", ("nomatch",), prefix + (("match", ("lit", b"ok", "str")),), handler),)
    elif shape == "loop-case-end":
        # read bytes until the end of input: loop { case { end -> { break; } /./ (or else) -> {...} } }
        arm_acts = draw(tail_actions(env))
        arm_acts = tuple(a for a in arm_acts if a[0] != "finish")
        if draw(st.booleans()):
            other = ((("re", ("any",), False),), None, arm_acts)
        else:
            other = (("else",), None, (("match", ("re", ("any",), False)),) + arm_acts)
        body = prefix + (("loop", None, (("case", False, (((("end",),), None, (("break", None),)), other)),)),) + acts
    elif shape == "try-open-regex":
        # a try body ending in a regex that ends on an inverted class, handler starting with `end`, then a statement outside the try
        rgx = ("re", ("seq", (("lit", 0x61), ("op", ("set", (("c", 0x62),), True), "*"))), False)
        handler = (("match", ("end",)),) + acts
        body = prefix + (("try", ("nomatch",), (("match", rgx),), handler), ("match", ("lit", b"b", "str")), ("hook", prog.hooks[0]))
    elif shape == "tail-optional-end":
        # the program may stop here (accepting state) but also offers an `end` match with actions behind it
        body = prefix + (("optional", (("match", ("end",)),) + acts),)
    elif shape == "tail-optional-case-end":
        body = prefix + (("optional", (("case", False, (((("end",),), None, acts), ((("lit", b"x", "str"),), None, draw(tail_actions(env))))),)),)
    elif shape == "two-tail-optionals":
        body = prefix + (("optional", (("match", ("lit", b"o", "str")),)), ("optional", (("match", ("end",)),) + acts))
    elif shape == "none":
        body = prefix
    elif shape == "none-open":
        body = prefix + (("match", ("re", ("op", ("lit", 0x61), draw(st.sampled_from("*+"))), False)),)
    else:
        body = prefix + (("optional", (("match", ("lit", b"o", "str")),)), ("match", ("end",))) + acts
    prog.body = body
    argv = [draw(st.sampled_from(gen.OPT_LEVELS)), "-feof-support"]
    return prog, argv


def worker(job):
    seed, n, known, stop_at, max_len = job
    shard = Shard()

    def body(val):
        prog, argv = val
        check_program(shard, prog, argv, max_len)

    common.hyp_run(shard, body, eof_program(), n, seed, known_keys=known, stop_at=stop_at)
    return shard


def corpus_worker(job):
    path, known = job
    shard = Shard()
    import shlex
    src = open(path).read()
    argv = shlex.split(src.splitlines()[0][len("// args: "):]) if src.startswith("// args: ") else ["-feof-support"]
    if "-feof-support" not in argv:
        argv.append("-feof-support")
    o = front.compile_src(src, argv)
    shard.event("corpus_files")
    if o.accepted:
        sp = structural_problems(o.compiled)
        if sp:
            shard.failures.append({"sig": "c17:structure", "what": "%s: %s" % (path, sp[:2]), "replay": {"source": src, "argv": argv}})
    return shard


def main(ctx):
    quick = ctx.tier == "quick"
    known = tuple(ctx.open_keys)
    corpus = sorted(glob.glob(os.path.join(common.REPO, "example", "test", "*.ok.nmfu")) + glob.glob(os.path.join(common.REPO, "example", "*.nmfu")))
    ctx.pmap(corpus_worker, [(p, known) for p in corpus])
    n = 120 if quick else 2000
    stop_at = time.time() + (75 if quick else 900)
    ctx.pmap(worker, [(ctx.seed * 100003 + i, n, known, stop_at, 4 if quick else 6) for i in range(common.NPROC)])
    ctx.rule = ("case = generated prefix + one of 9 end-of-input shapes (end statement, end in a concatenation, end as case clause with/without else, "
                "under wait, in a no-match handler's case, no end pattern with closed / open-ended / optional tail) + trailing actions (hooks, sets, finish "
                "codes), compiled with EOF support; for every input up to length 4 (quick) / 6 (thorough) that leaves the parse unfinished, end() on the "
                "abstract machine is compared with the reference interpreter's END step (code, strict events, outputs) - evaluations - and sampled "
                "words through the gcc-built normal and strict-done parsers. Non-trivial: end() called after >= 1 byte with an `end` pattern or a handler "
                "in the program; distinct by (source, input).")
    ctx.assumptions = ["END mismatches data patterns, so a catch(nomatch) or a case else may complete the program on it (as example/test/end-from-try.ok.nmfu relies on)",
                       "a reading that is still waiting for input (incl. inside wait) at end() means FAIL"]
    ctx.required_classes = ["programs", "class:end_completes", "class:end_fails", "c_runs", "corpus_files"]


def replay(ctx, data):
    rp = data["replay"]
    print(rp["source"])
    print(rp["argv"], rp.get("input"))
    return 0
