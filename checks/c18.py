"""
C18 - the compiler always terminates with code or a diagnosed error.

Grammar-based generation of sources *without* type discipline: declared names of every kind are used in every
position, plus undefined names, odd widths / sizes, unknown and truncated escapes, odd binary strings, empty bodies,
else-only cases, action-only programs, zero / inverted / large repeats, code points > 255, break outside loops,
duplicate names, recursive and mis-called macros, x legal-but-odd option mixes.  Well-typed programs from the
main generator are mixed in (and mutated).
Oracle: outcome in {accepted, diagnosed} and the diagnosis renders; every other exception is bucketed by root cause
(exception type + innermost nmfu function) - all buckets of a run are reported, each with its smallest source.
A per-compilation alarm turns a hang into a bucket of its own.
"""
import glob
import json
import os
import signal
import time

from hypothesis import strategies as st

from vlib import common, front, gen
from vlib.common import Failure, Shard

INTS = ["n0", "n1"]
BOOLS = ["b0"]
ENUMS = ["e0"]
STRS = ["s0", "s1"]
RAWS = ["r0"]
HOOKS = ["h0"]
MACROS = ["mac0", "mac1"]
FCODES = ["F0"]
YCODES = ["Y0"]
LOOPS = ["lp"]
ALLNAMES = INTS + BOOLS + ENUMS + STRS + RAWS + HOOKS + MACROS + FCODES + YCODES + LOOPS + ["undef", "EA", "EB", "finish", "x", "y", "x"]

name = st.sampled_from(ALLNAMES)


def name_of(*pools):
    """Mostly a name of the right kind, sometimes any name."""
    right = [n for p in pools for n in p]
    return st.one_of(st.sampled_from(right), st.sampled_from(right), st.sampled_from(right), name)

STRINGS = ['"a"', '"ab"', '""', '"\\n"', '"\\q"', '"\\x41"', '"\\xZZ"', '"\\x4"', '"\\u1234"', '"\\\\"', '"\\""', '"é"', '"€"', '"a"i', '"Z9"i', '"61"b',
           '"6"b', '"6 1"b', '"zz"b', '""b', '""i', '"\\0"', '"\\x00\\xff"', '"??/"']
# the last entry is deliberately unterminated (syntax error)
REGEXES = ['/a/', '/a+/', '/a*/', '/(a|b)c/', '/[a-c]/', '/[^a]/', '/./', '/.*/', '/a{0}/', '/a{3,2}/', '/a{2,}/', '/a{40}/', '/[c-a]/', '/\\w+/', '/[\\W\\w]/',
           '/[^\\W\\w]/', '/é/', '/[€]/', '/a?/', '/(a*)*/', '/(a+)+b/', 'b/61/', 'b/[00-ff]/', 'b/[^00-ff]/', 'b/6/', 'b/61{2}/', 'b/[ff-00]/',
           '/\\ /', '/a b/', '/[a\\-b]/']
NUMBERS = ["0", "1", "-1", "255", "256", "0x10", "0b101", "+5", "99999999999999999999", "-0x8000000000000000", "'a'", "'\\n'", "'\\0'",
           "'\\q'", "true", "false", "EA", "undef"]


@st.composite
def match_text(draw, depth=1):
    k = draw(st.integers(0, 9))
    if k <= 3:
        return draw(st.sampled_from(STRINGS))
    if k <= 6:
        return draw(st.sampled_from(REGEXES))
    if k == 7:
        return "end"
    if k == 8 and depth > 0:
        return "(" + " ".join(draw(st.lists(match_text(depth - 1), min_size=1, max_size=3))) + ")"
    return draw(name)


@st.composite
def expr_text(draw, depth=2):
    if depth <= 0 or draw(st.integers(0, 2)) == 0:
        k = draw(st.integers(0, 7))
        if k <= 2:
            return draw(st.sampled_from(NUMBERS))
        if k == 3:
            return draw(name_of(INTS, BOOLS))
        if k == 4:
            return draw(name_of(STRS, RAWS)) + ".len"
        if k == 5:
            return draw(name_of(STRS, RAWS)) + "[" + draw(expr_text(depth - 1)) + "]"
        if k == 6:
            return "$" + draw(st.sampled_from(["last", "first", "undef"]))
        return "(" + draw(expr_text(depth - 1)) + ")"
    op = draw(st.sampled_from(["+", "-", "*", "/", "%", "&", "|", "^", "<<", ">>", "==", "!=", "<", ">=", "&&", "||"]))
    if draw(st.integers(0, 6)) == 0:
        return draw(st.sampled_from(["!", "-"])) + "(" + draw(expr_text(depth - 1)) + ")"
    l, r = draw(expr_text(depth - 1)), draw(expr_text(depth - 1))
    if draw(st.integers(0, 5)) != 0:       # mostly parenthesised operands (the grammar's own precedence is exercised by C14)
        if " " in l:
            l = "(" + l + ")"
        if " " in r:
            r = "(" + r + ")"
    return l + " " + op + " " + r


@st.composite
def rhs_text(draw):
    k = draw(st.integers(0, 5))
    if k == 0:
        return draw(st.sampled_from(NUMBERS))
    if k == 1:
        return draw(st.sampled_from(STRINGS))
    if k == 2:
        return draw(name)
    if k == 3:
        return draw(match_text())
    return "[" + draw(expr_text()) + "]"


@st.composite
def stmt_text(draw, depth):
    k = draw(st.integers(0, 22))
    if k == 22:
        # a timing-strict action directly behind an open-ended match: cannot be scheduled, must be a rendered diagnosis whatever the action is
        opn = draw(st.sampled_from(["/a+/", "/a*/", "/[a-c]+/", "/.*/", "/ab*/", "/(ab)+/", "s0 += /a+/", "wait /ab*/", "optional { \"a\"; }"]))
        act = draw(st.sampled_from(["break;", "break lp;", "h0();", "finish;", "finish F0;", "yield Y0;", "s0 += [65];", "n0 = [n0 + 1];", "if n0 == 1 { break; }",
                                    "if n0 == 1 { h0(); }", "delete s0;", "mac0();", "s0 += [s0.len];"]))
        return "%s; %s" % (opn, act)
    if depth <= 0 and k >= 12:
        k = k % 12
    if k == 0:
        return draw(match_text()) + ";"
    if k == 1:
        return "%s = %s;" % (draw(name_of(INTS, BOOLS, ENUMS, STRS)), draw(rhs_text()))
    if k == 2:
        return "%s += %s;" % (draw(name_of(STRS, RAWS)), draw(rhs_text()))
    if k == 3:
        args = ", ".join(draw(st.lists(rhs_text(), min_size=0, max_size=3)))
        return "%s(%s);" % (draw(name_of(HOOKS, MACROS)), args)
    if k == 4:
        return draw(st.sampled_from(["break;", "break lp;", "break undef;", "break n0;"]))
    if k == 5:
        return "delete %s;" % draw(name_of(STRS, RAWS))
    if k == 6:
        return draw(st.sampled_from(["finish;", "finish F0;", "finish undef;", "finish Y0;"]))
    if k == 7:
        return draw(st.sampled_from(["yield Y0;", "yield undef;", "yield F0;"]))
    if k == 8:
        return "wait %s;" % draw(match_text())
    if k in (9, 10, 11):
        return draw(match_text()) + ";"
    body = lambda lo=0, hi=3: " ".join(draw(st.lists(stmt_text(depth - 1), min_size=lo, max_size=hi)))  # noqa: E731
    if k == 12:
        return "loop %s{ %s }" % (draw(st.sampled_from(["", "", "lp ", "n0 "])), body(1))
    if k in (13, 14):
        clauses = []
        for _ in range(draw(st.integers(1, 3))):
            pats = ", ".join(draw(st.lists(st.one_of(st.just("else"), match_text()), min_size=1, max_size=2)))
            pre = draw(st.sampled_from(["", "", "prio 1 ", "prio -1 "])) if k == 14 else ""
            clauses.append("%s%s -> { %s }" % (pre, pats, body()))
        return ("greedy case { %s }" if k == 14 else "case { %s }") % " ".join(clauses)
    if k == 15:
        return "optional { %s }" % body(1)
    if k in (16, 17):
        opts = draw(st.sampled_from(["", "", "(nomatch)", "(outofspace)", "(nomatch, outofspace)", "(nomatch, nomatch)"]))
        return "try { %s } catch %s { %s }" % (body(1), opts, body())
    if k == 18:
        return "foreach { %s } do { %s }" % (body(1), body(1))
    if k in (19, 20):
        s = "if %s { %s }" % (draw(expr_text()), body(1))
        if draw(st.booleans()):
            s += " elif %s { %s }" % (draw(expr_text()), body(1))
        if draw(st.booleans()):
            s += " else { %s }" % body(1)
        return s
    return draw(match_text()) + ";"


@st.composite
def decls_text(draw):
    d = []
    widths = ["", "", "", "{unsigned}", "{signed, size 1}", "{size 2}", "{unsigned, size 8}", "{unsigned, size 4}", "{size 0}", "{size 3}", "{unsigned, size 16}", "{size -1}", "{signed, unsigned}"]
    for n in INTS:
        if draw(st.integers(0, 4)) > 0:
            d.append("out int%s %s%s;" % (draw(st.sampled_from(widths)), n, draw(st.sampled_from(["", "", " = 0", " = 0", " = 5", " = 300", " = -1", " = true", ' = "a"', " = EA", " = 'a'"]))))
    if draw(st.booleans()):
        d.append("out bool b0%s;" % draw(st.sampled_from(["", " = true", " = false", " = true", " = 1", ' = "x"'])))
    if draw(st.booleans()):
        d.append("out enum{%s} e0%s;" % (draw(st.sampled_from(["EA,EB", "EA,EB", "EA,EB,EC", "EA,EA", "EA,finish", "n0,EB"])), draw(st.sampled_from(["", "", "", "", " = EA"]))))
    sizes = ["1", "2", "3", "4", "8", "8", "0", "0x10", "300", "70000", "-1", "0b11"]
    for n in STRS:
        if draw(st.integers(0, 3)) > 0:
            d.append("out %sstr[%s] %s%s;" % (draw(st.sampled_from(["", "", "unterminated "])), draw(st.sampled_from(sizes)), n,
                                                draw(st.sampled_from(["", "", "", "", "", ' = "a"', ' = "abcdefghij"', ' = "61 62"b', ' = "6"b', " = 5", ' = "\\q"', ' = "é"']))))
    if draw(st.booleans()):
        d.append("out raw{%s} r0%s;" % (draw(st.sampled_from(["uint32_t", "uint8_t", "uint16_t", "double", "struct_x", "n0"])), draw(st.sampled_from(["", "", ""]))))
    if draw(st.integers(0, 3)) > 0:
        d.append("hook h0;")
    if draw(st.integers(0, 5)) == 0:
        d.append("hook h0;")
    if draw(st.integers(0, 2)) > 0:
        d.append("finishcode F0;")
    if draw(st.integers(0, 2)) > 0:
        d.append("yieldcode Y0%s;" % draw(st.sampled_from(["", "", "", ", Y0", ", F0"])))
    kinds = ["macro", "out", "match", "expr", "hook", "loop", "finishcode", "yieldcode"]
    for mname in MACROS:
        if draw(st.integers(0, 2)) > 0:
            params = ", ".join("%s %s" % (draw(st.sampled_from(kinds)), draw(st.sampled_from(["x", "y", "n0", "x"]))) for _ in range(draw(st.integers(0, 3))))
            body = " ".join(draw(st.lists(st.one_of(stmt_text(1), st.sampled_from(["x;", "y;", "x();", "x = y;", "x += y;", "break x;", "finish x;", "yield x;",
                                                                                     "mac0();", "mac1(x);", "mac0(y, x);", "n0 = x;", "if x { y; }"])),
                                          min_size=0, max_size=3)))
            d.append("macro %s(%s) { %s }" % (mname, params, body))
    return d


ODD_ARGV = [[], ["-O0"], ["-O3"], ["-O0", "-fcollapse-transition-ranges"], ["-fno-hook-global"], ["-fhook-per-state"], ["-fyield-support"], ["-feof-support"],
            ["-fyield-support", "-feof-support", "-O3"], ["-fallocate-str-space-dynamic-on-demand", "-fdelete-string-free-memory"],
            ["--collapsed-range-length", "0", "-O2"], ["--max-shortcircuit-fallthrough", "0", "-O3"], ["-fstrict-done-token-generation", "-fyield-support"],
            ["-fdebug-strict-program-data-errors"], ["-fcodepoints-in-errors"], ["-fno-remove-inaccesible-states", "-O3"], ["-funsafe-string-indexing", "-fstrings-as-u8"]]


@st.composite
def odd_argv(draw):
    """One preset, or (1 in 3) the union of two: an error-rendering flag only matters together with the feature whose error is rendered."""
    a = list(draw(st.sampled_from(ODD_ARGV)))
    if draw(st.integers(0, 2)) == 0:
        for x in draw(st.sampled_from(ODD_ARGV)):
            if x not in a:
                a.append(x)
    return a


@st.composite
def wild_source(draw):
    decls = draw(decls_text())
    stmts = draw(st.lists(stmt_text(draw(st.integers(0, 2))), min_size=1, max_size=5))
    ws = draw(st.sampled_from(["\n    ", "\n    ", "\n    ", " ", "\t", "\r\n", "\r", "\n\x0c  ", "\n// comment\n"]))
    parser = "parser {%s%s }" % (ws, ws.join(stmts))
    # declarations may come before or after the parser
    k = draw(st.integers(0, len(decls)))
    sep = draw(st.sampled_from(["\n", "\n", "\n", "\r\n", "\n\x0c", " "]))
    src = sep.join(decls[:k] + [parser] + decls[k:]) + "\n"
    return src, draw(odd_argv())


SCHED_DECLS = "out int n0 = 0;\nout str[8] s0;\nhook h0;\nfinishcode F0;\nyieldcode Y0;\nmacro mac0() { h0(); }\n"
SCHED_OPEN = ["/a+/", "/a*/", "/[a-c]+/", "/.*/", "/ab*/", "/(ab)+/", "s0 += /a+/", "wait /ab*/", "optional { \"a\"; }", "\"a\"", "/a{2,}/", "case { /a+/ -> { } \"b\" -> { } }",
              "greedy case { /a+/ -> { n0 = 1; } \"ab\" -> { n0 = 2; } }", "foreach { /a+/; } do { n0 = 1; }", "try { /a+/; } catch { }", "end", "(\"a\" /b*/)"]
SCHED_ACT = ["break;", "break lp;", "h0();", "finish;", "finish F0;", "yield Y0;", "s0 += [65];", "n0 = [n0 + 1];", "if n0 == 1 { break; }", "if n0 == 1 { h0(); }", "delete s0;",
             "mac0();", "s0 += [s0.len];", "if n0 == 1 { finish; } else { break; }", "s0 = \"\";", "n0 = 3;", "if n0 == 1 { yield Y0; }", "if n0 == 1 { s0 += [66]; }"]
SCHED_WRAP = ["loop lp { %s }", "loop { %s }", "loop lp { case { \"x\" -> { %s } \"y\" -> { } } }", "try { %s } catch { }", "optional { \"q\"; %s }", "%s",
              "loop lp { try { %s } catch (outofspace) { break; } }", "foreach { %s } do { n0 = 1; }", "loop lp { \"b\"; %s }", "loop lp { %s \"c\"; }",
              "loop lp { loop { %s } \"c\"; }", "case { \"x\" -> { %s } else -> { } }", "if n0 == 0 { %s } else { \"k\"; }"]


@st.composite
def sched_source(draw):
    """Valid declarations and one construct whose actions may or may not be schedulable (a timing-strict or plain action directly behind an
    open-ended statement, inside every kind of block): accepted or a rendered diagnosis, whatever the action is."""
    inner = "%s; %s" % (draw(st.sampled_from(SCHED_OPEN)), draw(st.sampled_from(SCHED_ACT)))
    if draw(st.integers(0, 3)) == 0:
        inner += " %s; %s" % (draw(st.sampled_from(SCHED_OPEN)), draw(st.sampled_from(SCHED_ACT)))
    body = draw(st.sampled_from(SCHED_WRAP)) % inner
    lead = draw(st.sampled_from(["", "", "\"s\"; ", "h0(); ", "/s*/; "]))
    tail = draw(st.sampled_from(["", " \"z\";", " \"z\"; h0();", " /a/;", " end;"]))
    argv = list(draw(odd_argv()))
    if "yield" in inner and draw(st.integers(0, 3)) > 0 and "-fyield-support" not in argv:
        argv.append("-fyield-support")
    if "end" in inner + tail and draw(st.integers(0, 3)) > 0 and "-feof-support" not in argv:
        argv.append("-feof-support")
    return SCHED_DECLS + "parser { %s%s%s }\n" % (lead, body, tail), argv


ODD_DECLS = ("out int n0 = 0;\nout int{unsigned, size 1} n1 = 0;\nout bool b0 = false;\nout enum{EA,EB} e0;\nout str[8] s0;\nhook h0;\n"
             "macro mx(expr e) { TARGET = e; }\nmacro my(expr e) { if e { h0(); } }\nmacro mz(expr e) { mx([e + 1]); }\n")
ODD_EXPRS = ["1 / 0", "1 % 0", "1 << -1", "1 >> -1", "nope + 1", "nope", "EA", "EA + 1", "true + 1", "9" * 4400, "0x" + "f" * 4000, "-1 / 0", "(1 / 0) == 1", "1 / 0 == 1", "!nope",
             "s0.len / 0", "n0 / 0", "'a' / 0", "99999999999999999999 * 99999999999999999999", "1 << 100", "1 << 64", "-9223372036854775808 / -1", "e0 == EA", "e0 == nope",
             "b0 + 1", "1 / (2 - 2)", "1 % (n0 - n0)", "true / false", "1 << (0 - 1)", "s0[1 / 0]", "nope.len", "s0[nope]", "0 / 1", "7 / 2 * 0", "$last / 0", "1 / 0 + nope",
             "18446744073709551615", "18446744073709551616", "-9223372036854775809", "'\\q'", "EA == EB", "EA < 1", "!EA", "-EA", "true << 70", "0b" + "1" * 70]
ODD_STMTS = ["%(t)s = %(e)s;", "%(t)s = [%(e)s];", "if %(e)s { \"k\"; }", "if %(e)s { h0(); }", "s0 += [%(e)s];", "mx(%(e)s);", "mx([%(e)s]);", "my([%(e)s]);", "mz([%(e)s]);",
             "n0 = s0[%(e)s];", "if n0 == 1 { %(t)s = [%(e)s]; }", "/a{%(e)s}/;", "case { \"q\" -> { %(t)s = [%(e)s]; } }", "if [%(e)s] { \"k\"; } elif %(e)s { \"j\"; }"]


@st.composite
def odd_expr_source(draw):
    """Valid declarations and one statement whose expression is constant, undefined, ill-typed or out of every range, used directly, inside a
    condition, as an index, as a repeat count or through one or two macro expansions: the error path has to render its own message."""
    target = draw(st.sampled_from(["n0", "n1", "b0", "e0", "s0"]))
    stmt = draw(st.sampled_from(ODD_STMTS)) % {"t": draw(st.sampled_from(["n0", "n1", "b0", "e0", "s0"])), "e": draw(st.sampled_from(ODD_EXPRS))}
    extra = "out int{size %s} n2 = %s;\n" % (draw(st.sampled_from(["1", "2", "4", "8"])), draw(st.sampled_from(ODD_EXPRS[:30] + ["300", "-129", "70000"]))) if draw(st.integers(0, 5)) == 0 else ""
    src = ODD_DECLS.replace("TARGET", target) + extra + "parser { \"a\"; %s \"z\"; }\n" % stmt
    return src, list(draw(odd_argv()))


@st.composite
def typed_source(draw):
    mode = draw(st.sampled_from(["plain", "yield", "eof"]))
    cfg = gen.GenConfig(max_depth=3, max_stmts=6, allow_yield=(mode == "yield"), allow_end=(mode == "eof"), valid_bias=0.6, n_raws=(0, 1),
                        kinds={"yield": 2 if mode == "yield" else 0, "finish": 2}, wide_bytes=0.3)
    prog = draw(gen.program(cfg))
    return prog.source(), list(prog.argv) + draw(odd_argv())


@st.composite
def mutated_typed_source(draw):
    """A well-typed generated program with one identifier occurrence replaced by another declared name (usually of another kind),
    or one operator / keyword swapped: ill-typed but deep enough to reach the compile and codegen stages."""
    import re
    src, argv = draw(typed_source())
    idents = [(m.start(), m.end(), m.group(0)) for m in re.finditer(r"\b(n\d|b\d|e\d|s\d|r\d|h\d|F\d|Y\d|lp\d|EA|EB|EC)\b", src)]
    pool = sorted(set(i[2] for i in idents)) + ["undef"]
    for _ in range(draw(st.integers(1, 2))):
        if not idents:
            break
        a, b, old = idents[draw(st.integers(0, len(idents) - 1))]
        new = draw(st.sampled_from(pool))
        src = src[:a] + new + src[b:]
        idents = [(m.start(), m.end(), m.group(0)) for m in re.finditer(r"\b(n\d|b\d|e\d|s\d|r\d|h\d|F\d|Y\d|lp\d|EA|EB|EC)\b", src)]
    if draw(st.integers(0, 3)) == 0:
        swaps = [(" += ", " = "), (" = ", " += "), ("true", "1"), ("false", "[1 + 2]"), (" == ", " + "), ("finish", "yield")]
        o, n = draw(st.sampled_from(swaps))
        pos = [m.start() for m in re.finditer(re.escape(o), src)]
        if pos:
            p_ = pos[draw(st.integers(0, len(pos) - 1))]
            src = src[:p_] + n + src[p_ + len(o):]
    return src, argv


class Hang(Exception):
    pass


def _alarm(signum, frame):
    raise Hang()


def compile_guarded(src, argv, limit=20):
    old = signal.signal(signal.SIGALRM, _alarm)
    signal.alarm(limit)
    try:
        return front.compile_src(src, argv)
    except Hang:
        return front.Outcome("crash", stage="hang", exc=Hang(), msg="no result within %d s" % limit, where="(timeout)")
    finally:
        signal.alarm(0)
        signal.signal(signal.SIGALRM, old)


def bucket_of(out):
    return "c18:crash:%s:%s" % (type(out.exc).__name__, out.where)


def examine(shard, src, argv, buckets):
    out = compile_guarded(src, argv)
    shard.event("evaluations")
    shard.event("outcome:" + out.kind + ("" if out.kind != "diagnosed" else ":" + out.stage))
    if out.kind == "diagnosed":
        key = (out.stage, type(out.exc).__name__, out.msg.split("\n")[0][:40])
        shard.nontriv(repr(key))
    elif out.kind in ("crash", "exit"):
        b = bucket_of(out) if out.kind == "crash" else "c18:exit"
        cur = buckets.get(b)
        if cur is None or len(src) < len(cur["source"]):
            buckets[b] = {"source": src, "argv": argv, "msg": str(out.msg)[:300]}
    return out


def worker(job):
    seed, n, known, stop_at, which = job
    shard = Shard()
    buckets = {}

    def body(val):
        src, argv = val
        examine(shard, src, argv, buckets)
        if len(shard.samples) < 2 and len(src) < 400:
            shard.sample({"source": src, "argv": argv})

    strat = {"wild": wild_source, "typed": typed_source, "mutated": mutated_typed_source, "sched": sched_source, "oddexpr": odd_expr_source}[which]()
    common.hyp_run(shard, body, strat, n, seed, known_keys=known, stop_at=stop_at, shrink=False)
    # ddmin-ish: try to shorten each bucket's source by dropping lines / statements
    for b, info in buckets.items():
        info["source"] = minimise(info["source"], info["argv"], b)
        if b in known:
            shard.known_hits[b] += 1
        else:
            shard.failures.append({"sig": b, "what": "internal exception instead of a diagnosis: %s\nargv=%r\n%s" % (info["msg"], info["argv"], info["source"]),
                                   "replay": {"source": info["source"], "argv": info["argv"]}})
    return shard


def minimise(src, argv, bucket, budget=60):
    """Greedy deletion of lines, then of ';'-separated pieces, keeping the same bucket."""
    def same(s):
        o = compile_guarded(s, argv, limit=10)
        return o.kind == "crash" and bucket_of(o) == bucket
    for sep in ("\n", ";", " "):
        parts = src.split(sep)
        i = 0
        tries = 0
        while i < len(parts) and tries < budget:
            cand = parts[:i] + parts[i + 1:]
            tries += 1
            s2 = sep.join(cand)
            if s2 != src and same(s2):
                parts = cand
                src = s2
            else:
                i += 1
    return src


FIXED_SOURCES = [
    ('parser { "\\q"; }', []), ('parser { "\\xZZ"; }', []), ('parser { "\\u1234"; }', []), ('out raw{uint8_t} r0;\nparser { r0 = 5; "a"; }', []),
    ('out int n0;\nparser { n0 += "a"; }', []), ('parser { finish; }', []), ('parser { case { else -> { } } }', []),
    ('macro mac0() { mac0(); }\nparser { mac0(); }', []), ('out int{unsigned, size 16} n0;\nparser { "a"; }', []),
    ('out int n0 = 0;\nparser { case { "a" -> { if n0 == 1 { n0 = 2; } } }\n n0 = 3; }', []), ('out str[3] s0;\nparser { s0 += [65]; "a"; }', ["-O2"]),
    ('out bool b0 = false;\nparser { "a"; b0 = [1 + 2]; }', []), ('out int n0 = 0;\nmacro m(expr e) { n0 = e; }\nparser { "a"; m(e); }', []),
    ('parser {\n\x0c  "a"; undefinedhook(); }', []), ('parser {\r  "a"; undefinedhook(); }', []),
    ('macro m() { loop { loop { loop { loop { loop { loop { loop { loop { loop { loop { loop { "a"; m(); } } } } } } } } } } } }\nparser { m(); }', []),
    ('out enum{EA,EB} e0;\nparser { "a"; e0 = true; }', []), ('out enum{EA,EB} e0;\nparser { "a"; if e0 == false { "b"; } }', []),
    ('out int{unsigned, size 1} n0 = 100;\nout str[8] s0;\nparser { loop { "a"; if n0 == 1 { break; } } try { s0 += [n0]; "b"; } catch { } "x"; }', ["-O3"]),
    ('parser { optional { end; "a"; } end; }', ["-feof-support", "-fcodepoints-in-errors"]),
    ('parser { ' + ' '.join('"abcdefghijklmnopqrst";' for i in range(64)) + ' }', ["-O2"]),
    ('out enum{A,B} x;\nmacro m(expr e) { x = e; }\nparser { m([nope + 1]); "a"; }', []), ('out bool b;\nparser { "a"; b = [1/0]; }', []),
    ('out bool b0 = false;\nmacro mx(expr e) { b0 = e; }\nparser { "a"; mx([1 << (0 - 1)]); }', ["-O3"]), ('out int n;\nparser { "a"; n = %s; }' % ("9" * 4400), []),
    ('out enum{EA,EB} e0;\nparser { "a"; e0 = 0x%s; }' % ("f" * 4000), []), ('parser { /a{18446744073709551616}/; }', []), ('parser { /a{-9223372036854775809}/; }', []),
    ('out str[%s] s;\nparser { "a"; }' % ("9" * 4400), []), ('parser { b/61{99999999999999999999}/; }', []),
    ('parser { ""; }', []), ('parser { "6"b; }', []), ('parser { /a{3,2}/; }', []), ('parser { "é"; }', []), ('parser { /[c-a]/; }', []),
]


def fixed_worker(job):
    src, argv, known = job
    shard = Shard()
    buckets = {}
    examine(shard, src, argv, buckets)
    for b, info in buckets.items():
        if b in known:
            shard.known_hits[b] += 1
        else:
            shard.failures.append({"sig": b, "what": "internal exception instead of a diagnosis: %s\nargv=%r\n%s" % (info["msg"], info["argv"], info["source"]),
                                   "replay": {"source": info["source"], "argv": info["argv"]}})
    return shard


def afuzz_tier(ctx, seconds, known):
    """Coverage-guided campaign: NPROC atheris children (vlib/afuzz.py), each with its own libFuzzer seed and an empty corpus."""
    import shutil
    import subprocess
    import sys
    deps = os.path.join(common.VERIF_DIR, ".deps")
    env = dict(os.environ)
    env["PYTHONPATH"] = os.pathsep.join([common.REPO, common.VERIF_DIR, deps])
    probe = subprocess.run([sys.executable, "-c", "import atheris"], env=env, capture_output=True)
    if probe.returncode != 0:
        subprocess.run([sys.executable, "-m", "pip", "install", "-q", "--no-index", "--find-links", "/opt/veriftools/wheels", "--target", deps, "atheris"],
                       capture_output=True)
        probe = subprocess.run([sys.executable, "-c", "import atheris"], env=env, capture_output=True)
        if probe.returncode != 0:
            raise common.HarnessError("atheris cannot be imported (MANIFEST.setup_cmd installs it into /verif/.deps): %s" % probe.stderr.decode()[-300:])
    outdir = os.path.join(common.VERIF_DIR, "scratch", "c18_afuzz_%d" % os.getpid())
    shutil.rmtree(outdir, ignore_errors=True)
    os.makedirs(outdir)
    procs = []
    for i in range(common.NPROC):
        which = ("wild", "sched", "mutated", "oddexpr")[i % 4]
        log = open(os.path.join(outdir, "log%d.txt" % i), "w")
        procs.append((i, subprocess.Popen([sys.executable, "-m", "vlib.afuzz", which, str(ctx.seed * 100003 + 500 + i), str(seconds), outdir, str(i)],
                                          env=env, cwd=common.VERIF_DIR, stdout=log, stderr=subprocess.STDOUT), log))
    shard = Shard()
    buckets = {}
    for i, p, log in procs:
        try:
            rc = p.wait(timeout=seconds + 120)
        except subprocess.TimeoutExpired:
            p.kill()
            rc = -9
        log.close()
        path = os.path.join(outdir, "shard%d.json" % i)
        if not os.path.exists(path):
            shard.notes.append("HARNESS-ERROR: atheris child %d left no result (exit %s): %s" % (i, rc, open(os.path.join(outdir, "log%d.txt" % i)).read()[-400:]))
            continue
        d = json.load(open(path))
        if rc != 0:
            # the child died outside the guarded compile (e.g. a fatal signal inside the interpreter): report as its own bucket
            tail = open(os.path.join(outdir, "log%d.txt" % i)).read()[-600:]
            arts = sorted(glob.glob(os.path.join(outdir, "crash-*")) + glob.glob(os.path.join(outdir, "oom-*")))
            shard.notes.append("HARNESS-ERROR: atheris child %d ended with exit %s: %s %s" % (i, rc, tail, arts))
        for k, v in d["counters"].items():
            shard.event("afuzz:" + k if not k.startswith("outcome:") and k != "evaluations" else k, v)
        shard.event("afuzz:corpus_files", d["corpus_files"])
        shard.event("afuzz:evaluations", d["counters"].get("evaluations", 0))
        for k in d["nontrivial"]:
            shard.nontriv(k)
        for s_ in d["samples"][:1]:
            s_["tier"] = "atheris"
            shard.sample(s_)
        for b, info in d["buckets"].items():
            if b.startswith("harness:"):
                shard.notes.append("HARNESS-ERROR: generator raised inside fuzz_one_input: %s" % info["msg"])
                continue
            cur = buckets.get(b)
            if cur is None or len(info["source"]) < len(cur["source"]):
                buckets[b] = info
    for b, info in buckets.items():
        info["source"] = minimise(info["source"], info["argv"], b)
        if b in known:
            shard.known_hits[b] += 1
        else:
            shard.failures.append({"sig": b, "what": "internal exception instead of a diagnosis (coverage-guided tier): %s\nargv=%r\n%s" % (info["msg"], info["argv"], info["source"]),
                                   "replay": {"source": info["source"], "argv": info["argv"]}})
    shutil.rmtree(outdir, ignore_errors=True)
    ctx.total.merge(shard)


def main(ctx):
    quick = ctx.tier == "quick"
    known = tuple(ctx.open_keys)
    ctx.pmap(fixed_worker, [(s, a, known) for s, a in FIXED_SOURCES])
    corpus = sorted(glob.glob(os.path.join(common.REPO, "example", "test", "*.nmfu")))
    ctx.pmap(fixed_worker, [(open(p).read(), a, known) for p in corpus for a in ([], ["-O3", "-feof-support", "-fyield-support"])])
    n = 1200 if quick else 12000
    stop_at = time.time() + (60 if quick else 540)
    ctx.pmap(worker, [(ctx.seed * 100003 + i, n, known, stop_at, ("wild", "sched", "mutated", "typed", "wild", "oddexpr", "mutated", "typed")[i % 8]) for i in range(common.NPROC)])
    afuzz_tier(ctx, 25 if quick else 330, known)
    ctx.rule = ("case = (source text from an untyped grammar-based generator [3/4] or from the typed program generator with the lookahead constraint "
                "relaxed [1/4, half of them with one identifier / operator mutated], option set from a list of odd-but-legal mixes); evaluations = compilations. Non-trivial: source reaching an error path "
                "(diagnosed), distinct by (stage, error class, message head). All crash buckets (exception type, innermost nmfu function) of a run are "
                "reported with a greedily minimised source; 20 s alarm per compilation. Second tier: the same generators driven by atheris/libFuzzer "
                "(coverage of nmfu.py as feedback, fuzz_one_input, 16 independent campaigns from an empty corpus; counters afuzz:*).")
    ctx.assumptions = ["diagnosed = lark.LarkError | nmfu.NMFUError | RuntimeError from the command line, with str() rendering",
                       "Hypothesis shrinking is replaced by per-bucket greedy deletion so that one shallow crash does not hide the others"]
    ctx.required_classes = ["outcome:accepted", "outcome:diagnosed:parse", "outcome:diagnosed:compile", "outcome:diagnosed:syntax", "afuzz:evaluations", "afuzz:corpus_files"]


def replay(ctx, data):
    rp = data["replay"]
    print(rp["source"])
    print(rp["argv"])
    print(compile_guarded(rp["source"], rp["argv"]))
    return 0
