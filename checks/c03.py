"""
C03 - generated parsers are memory-safe and respect output capacities.

Every generated program (biased to str / unterminated str / raw outputs with append, char-append, assignment,
default, delete, .len and indexing) is compiled in all string-storage configurations
  {in-struct, dynamic, dynamic-on-demand, on-demand + delete-frees} x {char, u8} (sampled) x {safe, unsafe indexing}
built with clang -fsanitize=address,undefined,bounds and run on inputs that overflow every buffer, under several
chunkings, with the state struct moved between calls, every chunk in its own exact-size heap block, end() and
free() called and LeakSanitizer at exit.  After *every* call the driver's snapshot is checked:
  counter <= capacity, stored bytes == model bytes (abstract machine run alongside), NUL at [counter] for
  terminated strings whose buffer exists, guard words around the struct intact.
A second family checks that constants that do not fit (assignment, default) are diagnosed at compile time.
"""
import glob
import json
import os
import re
import time

from hypothesis import strategies as st

import nmfu
from vlib import am as am_mod
from vlib import common, crun, front, gen, inputs, ir, options, spell, trace
from vlib.common import Failure, Shard

OST = nmfu.OutputStorageType

STORAGE_SETS = [
    [],
    ["-fallocate-str-space-dynamic"],
    ["-fallocate-str-space-dynamic-on-demand"],
    ["-fallocate-str-space-dynamic-on-demand", "-fdelete-string-free-memory"],
]


def sanitizer_kind(err):
    m = re.search(r"ERROR: (AddressSanitizer|LeakSanitizer): ([a-zA-Z\-]+)", err)
    if m:
        return (m.group(1) + ":" + m.group(2)).lower()
    m = re.search(r"runtime error: ([a-z A-Z\-]+)", err)
    if m:
        return "ubsan:" + m.group(1).strip().replace(" ", "-")[:40]
    if "DEADLYSIGNAL" in err:
        return "asan:segv"
    return "unknown"


def invariants(info, calls):
    """Representation invariants on every C snapshot (incl. those seen by hooks)."""
    probs = []
    for c in calls:
        snaps = [c] if c.vars else []
        for v in info.vars:
            if v.type not in (OST.STR, OST.RAW):
                continue
            val = c.vars.get(v.name)
            if val is None:
                continue
            cnt, data = val
            if v.type == OST.STR:
                if cnt > v.cap:
                    probs.append("%s: counter %d exceeds capacity %d" % (v.name, cnt, v.cap))
                if data is not None and len(data) != min(cnt, v.size):
                    probs.append("%s: counter %d but %d bytes readable" % (v.name, cnt, len(data)))
    return probs


def term_problems(info, run):
    """NUL terminator checks on the raw crun events (terminator byte is only in the raw snapshot)."""
    probs = []
    for ev in run:
        if ev.kind not in ("R", "H") or ev.snap is None:
            continue
        if ev.kind == "R" and ev.name == "free":
            continue
        for v in info.vars:
            if v.type == OST.STR and v.term:
                val = ev.snap.vars.get(v.name)
                if val is None or val[1] is None:
                    continue
                cnt, data, t = val
                if cnt <= v.cap and t != "t00":
                    probs.append("%s: terminated string of length %d is not NUL-terminated (byte at [len] is %s) after %s" %
                                 (v.name, cnt, t, ev.name))
    return probs


def check_program(shard, prog, base_argv, extra_sets, choices_list, cut_sets=()):
    src = prog if isinstance(prog, str) else prog.source()
    replay = {"source": src, "base_argv": base_argv}
    shard.event("programs_generated")
    first = front.compile_src(src, base_argv)
    if not first.accepted:
        shard.event("rejected")
        return
    m = am_mod.Machine(first.compiled)
    datas = []
    for ch in choices_list:
        d = ch if isinstance(ch, (bytes, bytearray)) else inputs.guided_input(m, ch, max_len=40)
        if not d:
            continue
        try:
            want, _ = trace.am_calls(m, [d[j:j + 1] for j in range(len(d))], call_end=first.compiled.do("EOF_SUPPORT"),
                                     indirect=first.compiled.do("INDIRECT_START_PTR"))
        except am_mod.Undefined:
            shard.event("input_undefined_skipped")
            continue
        except am_mod.Spin:
            shard.event("input_spin_skipped")
            continue
        except am_mod.Broken as e:
            raise Failure("c03:machine-broken", "input %s: %s" % (d.hex(), e), dict(replay, input=d.hex()))
        datas.append((bytes(d), want))
    if not datas:
        return
    shard.event("programs")
    reached_cap = False
    for st_i, storage in enumerate(extra_sets):
        argv = base_argv + storage
        out = front.compile_src(src, argv)
        if not out.accepted:
            raise Failure("c03:verdict-differs", "accepted with %r but %r with %r" % (base_argv, out, argv), dict(replay, argv=argv))
        comp = out.compiled
        mm = am_mod.Machine(comp)
        try:
            binary = crun.Binary(comp, sanitize=True, tag="s%d" % st_i)
        except crun.BuildError as e:
            raise Failure("c03:c-build-error", "argv %r: %s" % (argv, str(e)[-1200:]), dict(replay, argv=argv))
        info = binary.info
        try:
            from checks.c02 import chunks_of
            for d, _want in datas:
                n = len(d)
                scheds = [tuple(range(1, n))]
                for cs in cut_sets:
                    cuts = tuple(sorted(set(x % n for x in cs if 0 < x % n < n)))
                    if cuts not in scheds:
                        scheds.append(cuts)
                sc = crun.Script()
                wants = []
                for cuts in scheds:
                    chunks = chunks_of(d, cuts)
                    try:
                        w, _ = trace.am_calls(mm, chunks, call_end=info.eof, indirect=info.indirect)
                    except (am_mod.Undefined, am_mod.Spin):
                        w = None
                    wants.append((chunks, w))
                    sc.b += trace.script_for(chunks, call_end=info.eof, call_free=info.dynmem, move=True).b
                rc, outp, err = binary.run_raw(sc)
                shard.event("evaluations", len(scheds))
                rp = dict(replay, argv=argv, input=d.hex())
                if rc != 0:
                    if rc == 3:
                        raise Failure("c03:c-hang", "argv %r input %s: driver hang\n%s" % (argv, d.hex(), outp[-300:]), rp)
                    if rc == 4:
                        raise Failure("c03:guard-corrupt", "argv %r input %s: guard words around the state struct overwritten\n%s" % (argv, d.hex(), outp[-300:]), rp)
                    kind = sanitizer_kind(err) if err.strip() else ("signal%s" % rc)
                    raise Failure("c03:sanitizer:" + kind, "argv %r input %s:\n%s" % (argv, d.hex(), err[-1800:]), rp)
                raw_runs = crun.parse_log(outp)
                for (chunks, w), run in zip(wants, raw_runs):
                    calls = trace.c_calls(run)
                    probs = invariants(info, calls) + term_problems(info, run)
                    if probs:
                        kind = "capacity" if "capacity" in probs[0] else ("not-nul-terminated" if "NUL" in probs[0] else "counter")
                        raise Failure("c03:invariant:" + kind, "argv %r input %s chunks %r:\n%s" % (argv, d.hex(), [c.hex() for c in chunks], "\n".join(probs[:5])), rp)
                    if w is not None:
                        got = [c for c in calls if c.kind != "free"]
                        diff = trace.first_diff(w, got, with_state=True, with_off=info.indirect)
                        if diff:
                            raise Failure("c03:model-mismatch", "argv %r input %s chunks %r (stored bytes / counters differ from the model):\n%s"
                                          % (argv, d.hex(), [c.hex() for c in chunks], diff[1]), rp)
                    for c in calls:
                        for v in info.vars:
                            val = c.vars.get(v.name)
                            if v.type == OST.STR and val and val[0] == v.cap and v.cap > 0:
                                reached_cap = True
        finally:
            binary.close()
    if reached_cap:
        shard.event("class:capacity_reached")
        shard.nontriv(src)
    if len(shard.samples) < 2 and reached_cap:
        shard.sample({"source": src, "base_argv": base_argv, "storage_sets": extra_sets, "inputs": [d.hex() for d, _ in datas[:2]]})


# ------------------------------------------------------------------ constants that do not fit

def oversize_body(shard, val):
    kind, size, term, extra, binary_default, argv = val
    cap = size - 1 if term else size
    data = bytes([0x61 + (i % 3) for i in range(cap + extra)])
    decl_t = "" if term else "unterminated "
    if kind == "default":
        lit = spell.binary_lit(data) if binary_default else spell.string_lit(data, "auto")
        src = "out %sstr[%d] s = %s;\nparser { \"a\"; }\n" % (decl_t, size, lit)
    else:
        src = "out %sstr[%d] s;\nparser { \"a\"; s = %s; \"b\"; }\n" % (decl_t, size, spell.string_lit(data, "auto"))
    out = front.compile_src(src, argv)
    shard.event("evaluations")
    shard.event("oversize:" + kind)
    if out.accepted:
        raise Failure("c03:oversize-constant-accepted:" + kind,
                      "a %d-byte constant was accepted for a string of capacity %d (%s); it must be a compile-time diagnosis" % (len(data), cap, kind),
                      {"source": src, "argv": argv})
    if out.kind == "crash":
        raise Failure("c03:oversize-constant-crash:" + kind, "%r" % out, {"source": src, "argv": argv})
    shard.nontriv(src)
    # the largest constant that fits must be accepted and stored intact
    fit = data[:cap]
    if kind == "default":
        lit = spell.binary_lit(fit) if (binary_default and fit) else spell.string_lit(fit, "auto")
        src2 = "out %sstr[%d] s = %s;\nparser { \"a\"; }\n" % (decl_t, size, lit)
    else:
        src2 = "out %sstr[%d] s;\nparser { \"a\"; s = %s; \"b\"; }\n" % (decl_t, size, spell.string_lit(fit, "auto"))
    out2 = front.compile_src(src2, argv)
    if not out2.accepted:
        raise Failure("c03:fitting-constant-rejected:" + kind, "%r\n%s" % (out2, src2), {"source": src2, "argv": argv})


@st.composite
def oversize_case(draw):
    return (draw(st.sampled_from(["default", "assign"])), draw(st.sampled_from([1, 2, 3, 4, 8, 255, 256])), draw(st.booleans()),
            draw(st.sampled_from([1, 1, 2, 5])), draw(st.booleans()), draw(st.sampled_from(STORAGE_SETS)) + [draw(st.sampled_from(gen.OPT_LEVELS))])


# ------------------------------------------------------------------ constants with characters beyond U+00FF (stored as UTF-8)

WIDE_CHARS = ["\u0101", "\u20ac", "\U0001f600", "a", "\u00e9"]     # 2, 3 and 4 bytes of UTF-8; one ASCII and one Latin-1 character (1 byte each)


def wide_bytes(text):
    try:
        return text.encode("latin-1")
    except UnicodeEncodeError:
        return text.encode("utf-8")


def wide_body(shard, val):
    """A string constant whose characters do not all fit a byte is stored UTF-8 encoded (nmfu's documented fallback); capacity checks and the
    length counter must count the bytes stored, not the characters written."""
    kind, size, term, chars, argv = val
    text = "".join(chars)
    data = wide_bytes(text)
    cap = size - 1 if term else size
    decl_t = "" if term else "unterminated "
    if kind == "default":
        src = "out %sstr[%d] s = \"%s\";\nparser { \"a\"; }\n" % (decl_t, size, text)
    else:
        src = "out %sstr[%d] s;\nparser { \"a\"; s = \"%s\"; \"b\"; }\n" % (decl_t, size, text)
    replay = {"source": src, "argv": argv}
    out = front.compile_src(src, argv)
    shard.event("evaluations")
    shard.event("wide:" + kind + (":fits" if len(data) <= cap else ":too-long"))
    if out.kind == "crash":
        raise Failure("c03:wide-constant-crash:" + kind, "%r" % out, replay)
    if len(data) > cap:
        if out.accepted:
            raise Failure("c03:oversize-constant-accepted:wide-" + kind,
                          "a constant of %d characters = %d stored bytes was accepted for a string of capacity %d (%s); it must be a compile-time diagnosis"
                          % (len(text), len(data), cap, kind), replay)
        shard.nontriv(src)
        return
    if not out.accepted:
        raise Failure("c03:fitting-constant-rejected:wide-" + kind, "%r\n%s" % (out, src), replay)
    try:
        binary = crun.Binary(out.compiled, sanitize=True, tag="wd")
    except crun.BuildError as e:
        raise Failure("c03:c-build-error", str(e)[-800:], replay)
    try:
        sc = trace.script_for([b"a", b"b"], call_free=binary.info.dynmem, move=True)
        rc, outp, err = binary.run_raw(sc)
        shard.event("wide_runs")
        if rc != 0:
            raise Failure("c03:sanitizer:" + (sanitizer_kind(err) if err.strip() else "signal%s" % rc), err[-1200:], replay)
        run = crun.parse_log(outp)[0]
        calls = trace.c_calls(run)
        probs = invariants(binary.info, calls) + term_problems(binary.info, run)
        feeds = [c for c in calls if c.kind == "feed"]
        cnt, dat = feeds[0].vars["s"]
        if cnt != len(data) or (dat is not None and dat != data):
            probs.append("after the constant was stored: counter %d, bytes %r; expected %d bytes %r" % (cnt, dat, len(data), data))
        if probs:
            raise Failure("c03:wide-constant:" + ("counter" if "counter" in probs[0] else "invariant"), "argv=%r: %s" % (argv, "; ".join(probs[:3])), replay)
        shard.nontriv(src + repr(argv))
    finally:
        binary.close()


@st.composite
def wide_case(draw):
    chars = draw(st.lists(st.sampled_from(WIDE_CHARS), min_size=1, max_size=4))
    if all(len(wide_bytes(c)) == 1 for c in chars):
        chars.append(draw(st.sampled_from(WIDE_CHARS[:3])))
    return (draw(st.sampled_from(["default", "assign"])), draw(st.sampled_from([2, 3, 4, 5, 8, 12, 16])), draw(st.booleans()), chars,
            draw(st.sampled_from(STORAGE_SETS)) + [draw(st.sampled_from(gen.OPT_LEVELS))])


def wide_worker(job):
    seed, n, known = job
    shard = Shard()
    common.hyp_run(shard, lambda v: wide_body(shard, v), wide_case(), n, seed, known_keys=known)
    return shard


# ------------------------------------------------------------------ capacity boundaries at counter-width limits

def boundary_body(shard, val):
    """Strings whose size sits at a counter-width boundary (255/256/257, 65535/65536) are filled past their capacity."""
    size, term, storage, u8, handler = val
    cap = size - 1 if term else size
    decl = "out %sstr[%d] s0;\nout int m = 0;\n" % ("" if term else "unterminated ", size)
    if handler:
        src = decl + "parser {\n    try {\n        s0 += /a+/;\n    }\n    catch (outofspace) {\n        m = 1;\n        wait \"z\";\n    }\n}\n"
    else:
        src = decl + "parser {\n    s0 += /a+/;\n    \"z\";\n}\n"
    argv = ["-O1", "-findirect-start-ptr"] + storage + (["-fstrings-as-u8"] if u8 else [])
    replay = {"source": src, "argv": argv}
    out = front.compile_src(src, argv)
    if not out.accepted:
        raise Failure("c03:boundary-not-accepted", "%r\n%s" % (out, src), replay)
    comp = out.compiled
    try:
        binary = crun.Binary(comp, sanitize=True, tag="bd")
    except crun.BuildError as e:
        raise Failure("c03:c-build-error", str(e)[-800:], replay)
    try:
        data = b"a" * (cap + 3) + b"z"
        # chunks: up to just below the capacity, then byte by byte across it
        cuts = [c for c in (cap - 2, cap - 1, cap, cap + 1, cap + 2) if 0 < c < len(data)]
        from checks.c02 import chunks_of
        chunks = chunks_of(data, cuts)
        sc = trace.script_for(chunks, call_free=binary.info.dynmem, move=True)
        rc, outp, err = binary.run_raw(sc)
        shard.event("evaluations")
        shard.event("boundary_runs")
        if rc != 0:
            raise Failure("c03:sanitizer:" + (sanitizer_kind(err) if err.strip() else "signal%s" % rc), "size %d: %s" % (size, err[-1200:]), replay)
        run = crun.parse_log(outp)[0]
        calls = trace.c_calls(run)
        probs = invariants(binary.info, calls) + term_problems(binary.info, run)
        # independent expectation: after the chunk that ends at offset k (k <= cap) the counter is k and all bytes are 'a'
        off = 0
        feeds = [c for c in calls if c.kind == "feed"]
        for ch, c in zip(chunks, feeds):
            off += len(ch)
            cnt, dat = c.vars["s0"]
            want = min(off, cap)
            if c.code == 1:
                break
            if cnt != want or (dat is not None and dat != b"a" * want):
                probs.append("after %d input bytes: counter %d / %d bytes stored, expected %d" % (off, cnt, len(dat or b""), want))
                break
            if handler and off > cap and c.vars["m"] != 1:
                probs.append("after %d input bytes the out-of-space handler has not run (capacity %d)" % (off, cap))
                break
        if not handler:
            last = feeds[min(len(feeds), len(chunks)) - 1]
            if not any(c.code == 1 for c in feeds):
                probs.append("writing byte %d into a string of capacity %d did not fail" % (cap + 1, cap))
        if probs:
            raise Failure("c03:boundary:" + ("counter" if "counter" in probs[0] else "overflow-not-raised"),
                          "size %d terminated=%s argv=%r: %s" % (size, term, argv, "; ".join(probs[:3])), replay)
        shard.nontriv(src + repr(argv))
    finally:
        binary.close()


@st.composite
def boundary_case(draw):
    return (draw(st.sampled_from([255, 256, 257, 255, 256, 257, 65535, 65536])), draw(st.booleans()), draw(st.sampled_from(STORAGE_SETS)),
            draw(st.booleans()), draw(st.booleans()))


def boundary_worker(job):
    seed, n, known = job
    shard = Shard()
    common.hyp_run(shard, lambda v: boundary_body(shard, v), boundary_case(), n, seed, known_keys=known)
    return shard


# ------------------------------------------------------------------ generated programs

@st.composite
def case_strategy(draw):
    if draw(st.integers(0, 9)) == 0:
        prog, datas = draw(gen.yield_overflow_program())
        k = draw(st.integers(0, len(datas) - 4))
        return prog, list(prog.argv) + ["-findirect-start-ptr"], datas[k:k + 4], [[1, 2], [3]]
    mode = draw(st.sampled_from(["plain", "plain", "plain", "yield", "eof"]))
    cfg = gen.GenConfig(max_depth=2, max_stmts=6, allow_yield=(mode == "yield"), allow_end=(mode == "eof"),
                        n_strs=(1, 3), n_raws=(0, 1), n_ints=(0, 2), str_sizes=[1, 2, 3, 4, 8],
                        kinds={"yield": 1 if mode == "yield" else 0, "append": 8, "appendc": 4, "assignstr": 3, "delete": 3, "try": 3, "loop": 3,
                               "match": 4, "hook": 2, "if": 2, "ifact": 2}, wide_bytes=0.15)
    prog = draw(gen.program(cfg))
    base = list(prog.argv)
    for f in ["-fstrings-as-u8", "-findirect-start-ptr", "-fzero-len-input-support", "-fhook-per-state"]:
        if draw(st.integers(0, 2)) == 0 and f not in base:
            base.append(f)
    if draw(st.integers(0, 3)) == 0:
        base.append("-funsafe-string-indexing")
    choices = draw(st.lists(st.lists(st.integers(0, 4095), min_size=4, max_size=40), min_size=1, max_size=3))
    cuts = draw(st.lists(st.lists(st.integers(1, 60), min_size=1, max_size=6), min_size=1, max_size=3))
    return prog, base, choices, cuts


def worker(job):
    seed, n, known, stop_at = job
    shard = Shard()

    def body(val):
        prog, base, choices, cuts = val
        check_program(shard, prog, base, STORAGE_SETS, choices, cuts)

    common.hyp_run(shard, body, case_strategy(), n, seed, known_keys=known, stop_at=stop_at)
    return shard


def oversize_worker(job):
    seed, n, known = job
    shard = Shard()
    common.hyp_run(shard, lambda v: oversize_body(shard, v), oversize_case(), n, seed, known_keys=known)
    return shard


def regress_worker(job):
    path, known = job
    shard = Shard()
    with open(path) as fh:
        d = json.load(fh)
    try:
        check_program(shard, d["source"], d["base_argv"], d.get("storage_sets", STORAGE_SETS), [bytes.fromhex(x) for x in d["inputs"]], d.get("cuts", [[2], [3, 5]]))
    except Failure as f:
        if f.sig in known:
            shard.known_hits[f.sig] += 1
        else:
            shard.failures.append({"sig": f.sig, "what": "regression case %s: %s" % (path, f.what), "replay": f.replay})
    shard.event("regression_cases")
    return shard


# ------------------------------------------------------------------ storage lifecycle: every short sequence of string operations

LIFECYCLE_CMDS = [b"d", b"a", b"e", b"px", b"c", b"h"]


def lifecycle_source(size, term, default, handler):
    decl = "out %sstr[%d] s0%s;" % ("" if term else "unterminated ", size, (' = "%s"' % default) if default is not None else "")
    case = ('case {\n "d" -> { delete s0; }\n "a" -> { s0 = "ab"; }\n "e" -> { s0 = ""; }\n "p" -> { s0 += "x"; }\n'
            ' "c" -> { s0 += [65]; }\n "h" -> { h0(); }\n "q" -> { break; }\n }')
    if handler:
        body = "try {\n %s\n }\n catch (outofspace) {\n h0();\n }" % case
    else:
        body = case
    return "%s\nhook h0;\nparser {\n loop {\n %s\n }\n}\n" % (decl, body)


def lifecycle_inputs(max_len):
    import itertools
    out = []
    for n in range(1, max_len + 1):
        for seq in itertools.product(LIFECYCLE_CMDS, repeat=n):
            out.append(b"".join(seq) + b"q")
    return out


def lifecycle_worker(job):
    """A little command interpreter over one string (delete, constant / empty assignment, literal append, char append, hook) run on every
    command sequence up to a length, in all storage configurations under the sanitizers: allocation, release and re-allocation in every order."""
    (size, term, default, handler, opt), max_len, known = job
    shard = Shard()
    src = lifecycle_source(size, term, default, handler)
    try:
        check_program(shard, src, [opt], STORAGE_SETS, lifecycle_inputs(max_len), [])
    except Failure as f:
        if f.sig in known:
            shard.known_hits[f.sig] += 1
        else:
            shard.failures.append({"sig": f.sig, "what": "lifecycle program: %s" % f.what, "replay": f.replay})
    shard.event("lifecycle_programs")
    return shard


def main(ctx):
    quick = ctx.tier == "quick"
    known = tuple(ctx.open_keys)
    variants = [(size, term, default, handler, opt) for size in (3, 2) for term in (True, False) for default in (None, "i")
                for handler in (False, True) for opt in ("-O0", "-O2", "-O3")]
    if quick:
        # a rotating third of the variants (all of them in the thorough tier), always including default + no handler at -O0 / -O2
        variants = [v for i, v in enumerate(variants) if (i + ctx.seed) % 3 == 0 or (v[2] == "i" and not v[3] and v[0] == 3 and v[4] != "-O3")]
    ctx.pmap(lifecycle_worker, [(v, 3 if quick else 4, known) for v in variants])
    reg = sorted(glob.glob(os.path.join(common.VERIF_DIR, "regress", "C03", "*.json")))
    ctx.pmap(regress_worker, [(p, known) for p in reg])
    ctx.pmap(oversize_worker, [(ctx.seed * 100003 + 50 + i, 12 if quick else 100, known) for i in range(4)])
    ctx.pmap(wide_worker, [(ctx.seed * 100003 + 60 + i, 8 if quick else 60, known) for i in range(4)])
    ctx.pmap(boundary_worker, [(ctx.seed * 100003 + 70 + i, 4 if quick else 30, known) for i in range(8)])
    n = 25 if quick else 400
    stop_at = time.time() + (80 if quick else 900)
    ctx.pmap(worker, [(ctx.seed * 100003 + i, n, known, stop_at) for i in range(common.NPROC)])
    ctx.rule = ("case = (generated string/raw-heavy program, base options) run in all four storage configurations, each built with clang "
                "ASan+UBSan(+bounds)+LSan, on guided inputs up to 40 bytes (long enough to overflow the 1..8 byte buffers) byte-per-call and under "
                "drawn chunkings, with end() and free(); evaluations = (storage configuration, input, schedule) executions + oversize-constant "
                "compilations. A lifecycle family runs a one-string command interpreter (delete, constant / empty assignment, literal and char append, hook; "
                "sizes 2-3, with / without default, with / without out-of-space handler, -O0/-O2/-O3) on every command sequence up to length 3 (quick) / 4. "
                "Non-trivial: some string reached its capacity in a run; distinct by source.")
    ctx.assumptions = ["intra-struct overruns are invisible to ASan; they are caught by the heap storage modes (same program), the guard words "
                       "and the per-call comparison with the model", "inputs with C-undefined arithmetic are skipped",
                       "post-DONE calls are not made"]
    ctx.required_classes = ["programs", "class:capacity_reached", "oversize:default", "oversize:assign", "boundary_runs", "lifecycle_programs", "wide:assign:too-long", "wide:default:too-long", "wide_runs"]


def replay(ctx, data):
    rp = data["replay"]
    print(rp["source"])
    print(rp.get("argv") or rp.get("base_argv"), rp.get("input"))
    return 0
