"""
RX: independent regular-expression machinery (never looks at nmfu's NFA/DFA code).

Surface AST (what gets printed as nmfu source, text or binary dialect):
    ('lit', b)                      one literal byte
    ('set', items, inverted)        items: tuple of ('c', b) | ('r', lo, hi) | ('k', letter)   letter in wWdDsSntr and ' '
    ('cls', letter)                 \\w \\W \\d \\D \\s \\S \\n \\t \\r '\\ '
    ('any',)                        .
    ('seq', (r1, r2, ...))          concatenation (non-empty)
    ('alt', (r1, r2, ...))          alternation (>= 2)
    ('op', r, '*' | '+' | '?')
    ('rep', r, n, m)                m: int  -> {n,m} ; None -> {n} ; 'inf' -> {n,}
Core regex (hash-consed tuples) with Brzozowski derivatives over bytes 0..255; END is a separate symbol that no
data regex consumes.
"""
import string

ALL = frozenset(range(256))
WORD = frozenset((string.ascii_letters + string.digits + "_").encode())
DIGIT = frozenset(string.digits.encode())
SPACE = frozenset(b" \t\n\r\x0b\x0c")
CLASSES = {
    "w": WORD, "W": ALL - WORD, "d": DIGIT, "D": ALL - DIGIT, "s": SPACE, "S": ALL - SPACE,
    "n": frozenset(b"\n"), "t": frozenset(b"\t"), "r": frozenset(b"\r"), " ": frozenset(b" "),
}

# ------------------------------------------------------------------ core regex
EMPTY = ("empty",)
EPS = ("eps",)


def chars(s):
    s = frozenset(s)
    return ("chars", s) if s else EMPTY


def seq(a, b):
    if a == EMPTY or b == EMPTY:
        return EMPTY
    if a == EPS:
        return b
    if b == EPS:
        return a
    if a[0] == "seq":   # right-nest
        return seq(a[1], seq(a[2], b))
    return ("seq", a, b)


def alt(*rs):
    items = set()
    cs = set()
    for r in rs:
        if r == EMPTY:
            continue
        if r[0] == "alt":
            for x in r[1]:
                if x[0] == "chars":
                    cs |= x[1]
                else:
                    items.add(x)
        elif r[0] == "chars":
            cs |= r[1]
        else:
            items.add(r)
    if cs:
        items.add(("chars", frozenset(cs)))
    if not items:
        return EMPTY
    if len(items) == 1:
        return next(iter(items))
    return ("alt", frozenset(items))


def star(r):
    if r == EMPTY or r == EPS:
        return EPS
    if r[0] == "star":
        return r
    return ("star", r)


_null_cache = {}


def nullable(r):
    k = r[0]
    if k == "eps" or k == "star":
        return True
    if k == "empty" or k == "chars":
        return False
    v = _null_cache.get(r)
    if v is None:
        if k == "seq":
            v = nullable(r[1]) and nullable(r[2])
        else:
            v = any(nullable(x) for x in r[1])
        _null_cache[r] = v
    return v


_deriv_cache = {}


def deriv(r, c):
    k = r[0]
    if k == "eps" or k == "empty":
        return EMPTY
    if k == "chars":
        return EPS if c in r[1] else EMPTY
    key = (r, c)
    v = _deriv_cache.get(key)
    if v is not None:
        return v
    if k == "seq":
        v = seq(deriv(r[1], c), r[2])
        if nullable(r[1]):
            v = alt(v, deriv(r[2], c))
    elif k == "alt":
        v = alt(*[deriv(x, c) for x in r[1]])
    else:  # star
        v = seq(deriv(r[1], c), r)
    if len(_deriv_cache) > 400000:
        _deriv_cache.clear()
    _deriv_cache[key] = v
    return v


def charsets_of(r, acc=None):
    if acc is None:
        acc = set()
    k = r[0]
    if k == "chars":
        acc.add(r[1])
    elif k == "seq":
        charsets_of(r[1], acc)
        charsets_of(r[2], acc)
    elif k == "alt":
        for x in r[1]:
            charsets_of(x, acc)
    elif k == "star":
        charsets_of(r[1], acc)
    return acc


def byte_classes(sets):
    """Partition 0..255 by membership in the given sets; returns list of frozensets."""
    sig = {}
    sets = list(sets)
    for b in range(256):
        key = tuple(b in s for s in sets)
        sig.setdefault(key, set()).add(b)
    return [frozenset(v) for v in sig.values()]


def first(r):
    return frozenset(c for cls in byte_classes(charsets_of(r)) for c in cls if deriv(r, min(cls)) != EMPTY)


class Auto:
    """Lazily explored derivative automaton of a core regex."""

    def __init__(self, r):
        self.start = r
        self.classes = byte_classes(charsets_of(r))
        self.rep = {}
        for cls in self.classes:
            m = min(cls)
            for b in cls:
                self.rep[b] = m

    def step(self, q, b):
        return deriv(q, self.rep[b])

    @staticmethod
    def accepting(q):
        return nullable(q)

    @staticmethod
    def dead(q):
        return q == EMPTY

    def states(self, limit=5000):
        seen = {self.start}
        work = [self.start]
        while work:
            q = work.pop()
            for cls in self.classes:
                n = deriv(q, min(cls))
                if n not in seen:
                    seen.add(n)
                    if len(seen) > limit:
                        raise OverflowError("automaton too large")
                    work.append(n)
        return seen

    def cont_symbols(self):
        """Bytes c such that some accepted word w has wc as a viable prefix (open-tail symbols)."""
        out = set()
        for q in self.states():
            if nullable(q):
                for cls in self.classes:
                    if deriv(q, min(cls)) != EMPTY:
                        out |= cls
        return frozenset(out)

    def accepts(self, word):
        q = self.start
        for b in word:
            q = self.step(q, b)
            if q == EMPTY:
                return False
        return nullable(q)

    def first_dead(self, word):
        """Index of the first byte after which no member is reachable, or None."""
        q = self.start
        for i, b in enumerate(word):
            q = self.step(q, b)
            if q == EMPTY:
                return i
        return None


# ------------------------------------------------------------------ surface -> core
def set_members(items):
    s = set()
    for it in items:
        if it[0] == "c":
            s.add(it[1])
        elif it[0] == "r":
            s |= set(range(it[1], it[2] + 1))
        else:
            s |= CLASSES[it[1]]
    return frozenset(s)


def to_core(r):
    k = r[0]
    if k == "lit":
        return chars([r[1]])
    if k == "set":
        m = set_members(r[1])
        return chars(ALL - m if r[2] else m)
    if k == "cls":
        return chars(CLASSES[r[1]])
    if k == "any":
        return chars(ALL)
    if k == "seq":
        out = EPS
        for x in reversed(r[1]):
            out = seq(to_core(x), out)
        return out
    if k == "alt":
        return alt(*[to_core(x) for x in r[1]])
    if k == "op":
        c = to_core(r[1])
        if r[2] == "*":
            return star(c)
        if r[2] == "+":
            return seq(c, star(c))
        return alt(c, EPS)
    if k == "rep":
        c = to_core(r[1])
        n, m = r[2], r[3]
        out = EPS
        if m == "inf":
            out = star(c)
        elif m is not None:
            for _ in range(m - n):
                out = alt(EPS, seq(c, out))
        for _ in range(n):
            out = seq(c, out)
        return out
    raise ValueError(r)


# ------------------------------------------------------------------ surface -> nmfu source
from . import spell  # noqa: E402


class Unspellable(Exception):
    pass


def _atom_needs_group(r):
    return r[0] in ("seq", "alt") or (r[0] in ("op", "rep"))


def to_text(r, binary=False, top=True):
    """Regex body (without the surrounding slashes)."""
    k = r[0]
    if k == "lit":
        if binary:
            return "%02x" % r[1]
        s = spell.regex_char(r[1])
        if s is None:
            raise Unspellable(r)
        return s
    if k == "any":
        return "."
    if k == "cls":
        if binary:
            raise Unspellable(r)
        return "\\" + r[1]
    if k == "set":
        parts = []
        for i, it in enumerate(r[1]):
            if it[0] == "c":
                parts.append(_set_el(it[1], binary, first=(i == 0 and not r[2])))
            elif it[0] == "r":
                parts.append(_set_el(it[1], binary, first=(i == 0 and not r[2])) + "-" + _set_el(it[2], binary))
            else:
                if binary:
                    raise Unspellable(r)
                parts.append("\\" + it[1])
        sep = " " if binary else ""
        return ("[^" if r[2] else "[") + sep.join(parts) + "]"
    if k == "seq":
        return (" " if binary else "").join(_wrap_seq_el(x, binary) for x in r[1])
    if k == "alt":
        return "|".join(to_text(x, binary, False) for x in r[1])
    if k == "op":
        return _wrap_atom(r[1], binary) + r[2]
    if k == "rep":
        n, m = r[2], r[3]
        body = _wrap_atom(r[1], binary)
        if m is None:
            return body + "{%d}" % n
        if m == "inf":
            return body + "{%d,}" % n
        return body + "{%d,%d}" % (n, m)
    raise ValueError(r)


def _set_el(b, binary, first=False):
    if binary:
        return "%02x" % b
    s = spell.regex_set_char(b)
    if s is None or (first and b == ord("^")):
        raise Unspellable(("set-el", b))
    return s


def _wrap_atom(r, binary):
    if r[0] in ("seq", "alt", "op", "rep"):
        return "(" + to_text(r, binary, False) + ")"
    return to_text(r, binary, False)


def _wrap_seq_el(r, binary):
    if r[0] == "alt":
        return "(" + to_text(r, binary, False) + ")"
    if r[0] == "seq":
        return "(" + to_text(r, binary, False) + ")"
    return to_text(r, binary, False)


def to_source(r, binary=False):
    return ("b/" if binary else "/") + to_text(r, binary) + "/"


def to_python_re(r):
    """Python `re` (bytes) pattern with the same language, for harness self-tests."""
    import re
    k = r[0]
    if k in ("lit", "set", "cls", "any"):
        core = to_core(r)
        members = core[1] if core != EMPTY else frozenset()
        if not members:
            return b"(?!)"
        return b"[" + b"".join(re.escape(bytes([b])) for b in sorted(members)) + b"]"
    if k == "seq":
        return b"".join(b"(?:" + to_python_re(x) + b")" for x in r[1])
    if k == "alt":
        return b"|".join(b"(?:" + to_python_re(x) + b")" for x in r[1])
    if k == "op":
        return b"(?:" + to_python_re(r[1]) + b")" + r[2].encode()
    if k == "rep":
        n, m = r[2], r[3]
        q = b"{%d}" % n if m is None else (b"{%d,}" % n if m == "inf" else b"{%d,%d}" % (n, m))
        return b"(?:" + to_python_re(r[1]) + b")" + q
    raise ValueError(r)


# ------------------------------------------------------------------ derived automata
def restart_step(auto, q, b):
    """
    One step of the *restart automaton* of a pattern (parser.md, wait statement): on a mismatch the partial
    match is abandoned and matching resumes from the pattern's beginning with the offending byte, which is
    skipped if it cannot start the pattern.
    """
    n = auto.step(q, b)
    if n != EMPTY:
        return n
    n = auto.step(auto.start, b)
    if n != EMPTY:
        return n
    return auto.start


def literal_core(bs, casei=False):
    out = EPS
    for b in reversed(bytes(bs)):
        if casei and chr(b) in string.ascii_letters:
            out = seq(chars([b, b ^ 0x20]), out)
        else:
            out = seq(chars([b]), out)
    return out
