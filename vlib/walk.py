"""
Joint exhaustive walks of several abstract machines over all short inputs, and the event comparison with the
one-position timing slack of DESIGN.md section 3.3 (T1/T2/T4).

A *timeline* is what one machine produced on one input, byte per call:
    events   : list of (k, kind, payload)   k = index of the call (byte) during which the event happened, -1 = start
    terminal : None | (k, code)             first terminal result (FAIL / DONE / FINISH_*)
    yields   : part of events, kind 'yield', payload (code, absolute pointer)
    final    : outputs after the last call made
"""
from . import am as am_mod
from . import trace


OBSERVABLE = ("set", "setstr", "delete", "append", "hook", "break", "overflow")


class Timeline:
    __slots__ = ("events", "terminal", "final", "ncalls", "stuck")

    def __init__(self):
        self.events = []
        self.terminal = None
        self.final = None
        self.ncalls = 0
        self.stuck = False

    def copy(self):
        t = Timeline()
        t.events = list(self.events)
        t.terminal = self.terminal
        t.final = self.final
        t.ncalls = self.ncalls
        t.stuck = self.stuck
        return t


def payload_of(e):
    if e[0] == "hook":
        return (e[1], tuple(sorted(trace.norm_am_vars(e[3]).items())))     # inval deliberately dropped (T4)
    if e[0] == "setstr" and e[2] == b"":
        return (e[1],)          # assigning the empty string and deleting are the same effect
    return tuple(e[1:])


def absorb(tl, k, res, machine, cfg, base_off):
    """Add the outcome of one AM call to a timeline."""
    for e in res.events:
        if e[0] in OBSERVABLE:
            kind = "delete" if (e[0] == "setstr" and e[2] == b"") else e[0]
            tl.events.append((k, kind, payload_of(e)))
    code = res.code
    nyield = 3 + len(machine.finish_codes)
    if code >= nyield:
        # the pointer value is C10's business; between optimisation levels only the position within the one-call window is compared
        tl.events.append((k, "yield", (code,)))
    elif code in (1, 2) or 3 <= code < nyield:
        if tl.terminal is None:
            tl.terminal = (k, code)
    if res.stuck:
        tl.stuck = True
    tl.final = trace.norm_am_vars(cfg.frozen_vars())
    tl.ncalls = max(tl.ncalls, k + 1)


def start_timeline(machine):
    cfg, res = machine.start()
    tl = Timeline()
    absorb(tl, -1, res, machine, cfg, 0)
    tl.ncalls = 0
    return cfg, tl


def step_timeline(machine, cfg, tl, k, byte):
    """Feed one byte (re-invoking after yields) and record. Mutates cfg and tl."""
    chunk = bytes([byte])
    nyield = 3 + len(machine.finish_codes)
    pos = 0
    guard = 0
    while True:
        res = machine.feed(cfg, chunk[pos:])
        pos += res.ptr
        absorb(tl, k, res, machine, cfg, k)
        if res.code >= nyield:
            guard += 1
            if guard > 1000:
                raise am_mod.Spin("yield spin", None)
            continue
        break


def compare(a, b, at_end_of_input, n):
    """
    Compare two timelines of the same input of length n. Returns None or (kind, description).
    Slack: paired events may sit in neighbouring calls (|ka - kb| <= 1); when the input ends without a terminal
    result on a side, that side may lack a suffix of events that the other performed during the last call (T2).
    """
    ea, eb = a.events, b.events
    m = min(len(ea), len(eb))
    for i in range(m):
        (ka, kinda, pa), (kb, kindb, pb) = ea[i], eb[i]
        if kinda != kindb or pa != pb:
            return ("event-differs", "event #%d: %r vs %r" % (i, ea[i], eb[i]))
        if abs(ka - kb) > 1:
            return ("event-moved-too-far", "event #%d %r at call %d vs %d" % (i, (kinda, pa), ka, kb))
    if len(ea) != len(eb):
        longer, shorter, who = (a, b, "A") if len(ea) > len(eb) else (b, a, "B")
        extra = longer.events[m:]
        # allowed only if the shorter side has not terminated and all extra events sit in the final call(s)
        if shorter.terminal is not None and longer.terminal is not None:
            return ("event-count", "both terminated but %s has extra events %r" % (who, extra[:3]))
        if shorter.terminal is not None:
            return ("event-after-terminal", "%s performs %r after the other side terminated at %r" % (who, extra[:3], shorter.terminal))
        if not at_end_of_input:
            return ("event-count", "%s has extra events %r" % (who, extra[:3]))
        if any(k < n - 1 for k, _, _ in extra):
            return ("event-missing", "%s has extra events before the last byte: %r" % (who, extra[:3]))
        return None
    ta, tb = a.terminal, b.terminal
    if ta is not None and tb is not None:
        if ta[1] != tb[1]:
            return ("terminal-code", "terminal %r vs %r" % (ta, tb))
        if abs(ta[0] - tb[0]) > 1:
            return ("terminal-position", "terminal %r vs %r" % (ta, tb))
        if a.final != b.final:
            return ("final-outputs", "outputs at the end differ: %r vs %r" % (a.final, b.final))
        return None
    if ta is None and tb is None:
        if a.final != b.final and not at_end_of_input:
            return ("outputs", "outputs differ mid-input: %r vs %r" % (a.final, b.final))
        return None
    # one side terminated, the other not: allowed only at the very end of the input (T2/T5), and only for DONE-like
    # results that the lazy side would produce on the next byte.
    t = ta or tb
    if not at_end_of_input or t[0] < n - 1:
        return ("terminal-missing", "one side terminated %r, the other did not (input length %d)" % (t, n))
    return None


def joint_walk(machines, alphabet, max_len, visit, node_cap=20000, end_symbol=False):
    """
    Depth-first walk over all strings over `alphabet` up to max_len, advancing all machines together.
    visit(word, timelines, cfgs) is called at every node (after extending); it may raise to report.
    A branch is not extended once every machine has terminated.  Machines that raise Undefined on a branch
    end that branch (counted in the returned stats).
    """
    stats = {"nodes": 0, "undefined": 0, "spin": 0, "capped": False}
    starts = []
    for m in machines:
        cfg, tl = start_timeline(m)
        starts.append((cfg, tl))
    visit(b"", [tl for _, tl in starts], [c for c, _ in starts])
    stack = [(b"", starts)]
    while stack:
        word, states = stack.pop()
        if len(word) >= max_len:
            continue
        if all(tl.terminal is not None for _, tl in states):
            continue
        for sym in alphabet:
            if stats["nodes"] >= node_cap:
                stats["capped"] = True
                return stats
            new_states = []
            ok = True
            for m, (cfg, tl) in zip(machines, states):
                c2, t2 = cfg.copy(), tl.copy()
                if t2.terminal is None:
                    try:
                        step_timeline(m, c2, t2, len(word), sym)
                    except am_mod.Undefined:
                        stats["undefined"] += 1
                        ok = False
                        break
                    except am_mod.Spin:
                        stats["spin"] += 1
                        ok = False
                        break
                new_states.append((c2, t2))
            if not ok:
                continue
            stats["nodes"] += 1
            w2 = word + bytes([sym])
            visit(w2, [tl for _, tl in new_states], [c for c, _ in new_states])
            stack.append((w2, new_states))
    return stats


def representatives(classes, cap=6, must=()):
    """Pick representative bytes from byte classes (list of frozensets): small classes first (they carry the
    program's literals), then the big 'everything else' class."""
    reps = []
    for b in must:
        if b not in reps:
            reps.append(b)
    for cls in sorted(classes, key=lambda c: (len(c), min(c))):
        r = min(cls)
        if r not in reps:
            reps.append(r)
        if len(reps) >= cap:
            break
    return reps
