"""
Normalised per-call traces from the C binary (CRUN) and from the abstract machine (AM), directly comparable.

A run is a list of Call objects:  kind in start|feed|end|free, code, off (absolute offset of *start after
the call, or None in direct-pointer mode), hooks [(name, inval, vars)], vars (snapshot after the call), state.
vars: dict name -> int | (length, bytes)
"""
from . import am as am_mod
from . import crun


class Call:
    __slots__ = ("kind", "code", "off", "hooks", "vars", "state", "events")

    def __init__(self, kind, code, off, hooks, vars_, state, events=None):
        self.kind = kind
        self.code = code
        self.off = off
        self.hooks = hooks
        self.vars = vars_
        self.state = state
        self.events = events

    def key(self, with_state=True, with_off=True):
        return (self.kind, self.code, self.off if with_off else None, tuple(self.hooks), tuple(sorted(self.vars.items())),
                self.state if with_state else None)

    def __repr__(self):
        return "<%s code=%s off=%s st=%s hooks=%r vars=%r>" % (self.kind, self.code, self.off, self.state, self.hooks, self.vars)


def norm_c_vars(snap):
    out = {}
    for k, v in snap.vars.items():
        if isinstance(v, tuple):
            out[k] = (v[0], v[1] if v[1] is not None else (b"" if v[0] == 0 else None))
        else:
            out[k] = v
    return out


def norm_am_vars(frozen):
    out = {}
    for k, v in frozen:
        if isinstance(v, (bytes, bytearray)):
            out[k] = (len(v), bytes(v))
        else:
            out[k] = v
    return out


def c_calls(run):
    """Convert one parsed CRUN run (list of crun.Event) into Calls."""
    calls = []
    hooks = []
    for ev in run:
        if ev.kind == "H":
            hooks.append((ev.name, ev.inval, tuple(sorted(norm_c_vars(ev.snap).items()))))
        elif ev.kind == "R":
            calls.append(Call(ev.name, ev.code, ev.off if ev.off >= 0 else None, hooks, norm_c_vars(ev.snap), ev.snap.state))
            hooks = []
        elif ev.kind in ("HANG", "YIELDSPIN", "GUARD-CORRUPT"):
            calls.append(Call(ev.kind, None, None, hooks, {}, None))
            hooks = []
    return calls


def am_calls(machine, chunks, call_end=False, indirect=True, cfg0=None, end_after=None):
    """Run the abstract machine on the same call schedule the driver uses; returns list of Call.
    Exceptions from AM (Undefined, Spin, Broken) propagate.  cfg0: start from this configuration
    instead of calling start()."""
    if cfg0 is None:
        cfg, r = machine.start()
        calls = [_am_call("start", r, None, machine, cfg)]
    else:
        cfg = cfg0
        calls = []
    base = 0
    nyield = 3 + len(machine.finish_codes)
    dead = bool(calls) and calls[-1].code != 0
    for k, ch in enumerate(chunks):
        if dead:
            break
        if end_after is not None and k == end_after:
            # an end() call in the middle of the input (the caller goes on afterwards): once FAIL, always FAIL
            res = machine.end(cfg)
            calls.append(_am_call("end", res, None, machine, cfg))
            if res.code == 2 or 3 <= res.code < nyield:
                dead = True
                break
        pos = 0
        guard = 0
        while True:
            res = machine.feed(cfg, ch[pos:])
            pos += res.ptr
            calls.append(_am_call("feed", res, (base + pos) if indirect else None, machine, cfg))
            if res.code == 2 or 3 <= res.code < nyield:
                dead = True      # finished: the driver makes no further calls
            if not (indirect and res.code >= nyield):
                break
            guard += 1
            if guard > 100000:
                raise am_mod.Spin("yield spin", None)
        base += len(ch)
    if call_end and not dead:
        res = machine.end(cfg)
        calls.append(_am_call("end", res, None, machine, cfg))
    return calls, cfg


def _am_call(kind, res, off, machine, cfg):
    hooks = [(e[1], e[2], tuple(sorted(norm_am_vars(e[3]).items()))) for e in res.events if e[0] == "hook"]
    return Call(kind, res.code, off, hooks, norm_am_vars(cfg.frozen_vars()), machine.idx(cfg.state), events=res.events)


def script_for(chunks, call_end=False, call_free=False, move=True, end_after=None):
    sc = crun.Script().start(move=move, snap=True)
    for k, ch in enumerate(chunks):
        if end_after is not None and k == end_after:
            sc.end()
        sc.feed(ch)
    if call_end:
        sc.end()
    if call_free:
        sc.free()
    sc.stop()
    return sc


def first_diff(a_calls, b_calls, with_state=True, with_off=True):
    """Index and description of the first differing call, or None."""
    for i, (a, b) in enumerate(zip(a_calls, b_calls)):
        if a.key(with_state, with_off) != b.key(with_state, with_off):
            return i, "call %d differs:\n   A: %r\n   B: %r" % (i, a, b)
    if len(a_calls) != len(b_calls):
        return min(len(a_calls), len(b_calls)), "different number of calls: %d vs %d" % (len(a_calls), len(b_calls))
    return None
