"""
FRONT: drive nmfu exactly as main() does, in-process, and classify the outcome.

  accepted  -> Compiled(pctx, dctx, cctx, header, source)
  diagnosed -> lark.LarkError | nmfu.NMFUError | RuntimeError from load_commandline_flags
  crash     -> anything else (incl. an exception while rendering the diagnosis)
"""
import gc
import traceback

import lark
import nmfu


class Outcome:
    def __init__(self, kind, stage=None, exc=None, compiled=None, msg=None, where=None):
        self.kind = kind          # 'accepted' | 'diagnosed' | 'crash'
        self.stage = stage        # 'args' | 'syntax' | 'parse' | 'compile' | 'codegen' | 'render'
        self.exc = exc
        self.compiled = compiled
        self.msg = msg
        self.where = where        # innermost nmfu function for crashes

    @property
    def accepted(self):
        return self.kind == "accepted"

    def __repr__(self):
        if self.kind == "accepted":
            return "<accepted>"
        return f"<{self.kind} {self.stage} {type(self.exc).__name__}: {str(self.msg)[:80]!r}>"


class Compiled:
    def __init__(self, src, argv, pctx, dctx, cctx, header, source, name):
        self.src = src
        self.argv = list(argv)
        self.pctx = pctx
        self.dctx = dctx
        self.cctx = cctx
        self.header = header
        self.source = source
        self.name = name
        self.flags = dict(nmfu.ProgramData._flags)
        self.options = dict(nmfu.ProgramData._options)

    @property
    def dfa(self):
        return self.dctx.dfa

    def do(self, flagname):
        return self.flags[nmfu.ProgramFlag[flagname]]


def innermost_nmfu_frame(exc):
    tb = traceback.extract_tb(exc.__traceback__)
    where = None
    for fr in tb:
        if fr.filename.endswith("nmfu.py"):
            where = fr.name
    if where is None and tb:
        where = tb[-1].name
    return where


def reset_globals():
    """Harness-side hygiene: nmfu keeps every DFState ever made in a class dict."""
    nmfu.DFState.all_states.clear()
    nmfu.DFA.all_state_machines.clear()


def compile_src(src, argv=(), name="p", codegen=True, clear=True):
    if clear:
        reset_globals()
    try:
        try:
            nmfu.ProgramData.load_commandline_flags([*argv, name + ".nmfu"])
        except RuntimeError as e:
            return _diag("args", e)
        nmfu.ProgramData.load_source(src)
        try:
            pt = nmfu.parser.parse(src, start="start")
        except lark.LarkError as e:
            return _diag("syntax", e)
        pctx = nmfu.ParseCtx(pt)
        try:
            pctx.parse()
        except nmfu.NMFUError as e:
            return _diag("parse", e)
        dctx = nmfu.DfaCompileCtx(pctx)
        try:
            dctx.compile()
        except nmfu.NMFUError as e:
            return _diag("compile", e)
        if not codegen:
            return Outcome("accepted", compiled=Compiled(src, argv, pctx, dctx, None, None, None, name))
        cctx = nmfu.CodegenCtx(dctx, name)
        try:
            header = cctx.generate_header()
            source = cctx.generate_source()
        except nmfu.NMFUError as e:
            return _diag("codegen", e)
        return Outcome("accepted", compiled=Compiled(src, argv, pctx, dctx, cctx, header, source, name))
    except RecursionError as e:
        return Outcome("crash", stage="internal", exc=e, msg="RecursionError", where=innermost_nmfu_frame(e))
    except SystemExit as e:
        return Outcome("exit", stage="args", exc=e, msg="exit %r" % (e.code,))
    except Exception as e:  # noqa: BLE001 - classification is the point
        return Outcome("crash", stage="internal", exc=e, msg=repr(e), where=innermost_nmfu_frame(e))


def _diag(stage, e):
    try:
        msg = str(e)
    except Exception as e2:  # noqa: BLE001
        return Outcome("crash", stage="render", exc=e2, msg="while rendering %s: %r" % (type(e).__name__, e2),
                       where=innermost_nmfu_frame(e2))
    return Outcome("diagnosed", stage=stage, exc=e, msg=msg)


def must_compile(src, argv=(), name="p"):
    out = compile_src(src, argv, name)
    if not out.accepted:
        raise AssertionError("expected acceptance: %r\n%s" % (out, src))
    return out.compiled
