"""
Shared plumbing for all checks: context, evidence, findings, sharded Hypothesis driving.

Exit codes (see DESIGN.md section 6): 0 held / known findings only, 1 violation, 2 harness error.
"""
import collections
import hashlib
import json
import multiprocessing
import os
import sys
import time
import traceback

VERIF_DIR = os.path.dirname(os.path.dirname(os.path.abspath(__file__)))
REPO = os.environ.get("VERIF_REPO", "/repo")
NPROC = int(os.environ.get("VERIF_NPROC", "16"))


class HarnessError(Exception):
    """Something is wrong with the machinery itself (exit 2, never a VIOLATION)."""


class Failure(Exception):
    """A property violation found on a generated case."""

    def __init__(self, sig, what, replay):
        super().__init__(what)
        self.sig = sig
        self.what = what
        self.replay = replay


def stable_hash(obj):
    return hashlib.sha1(json.dumps(obj, sort_keys=True, default=repr).encode()).hexdigest()[:16]


def load_known_findings():
    path = os.path.join(VERIF_DIR, "known_findings.json")
    if not os.path.exists(path):
        return []
    with open(path) as f:
        return json.load(f)["findings"]


class Shard:
    """Result container filled inside one worker process; picklable."""

    def __init__(self):
        self.counters = collections.Counter()
        self.samples = []
        self.nontrivial = set()
        self.failures = []      # list of dict(sig, what, replay)
        self.known_hits = collections.Counter()
        self.notes = []
        self.extra = {}

    def event(self, name, n=1):
        self.counters[name] += n

    def sample(self, obj, cap=6):
        if len(self.samples) < cap:
            self.samples.append(obj)

    def nontriv(self, key):
        self.nontrivial.add(key if isinstance(key, str) else stable_hash(key))

    def merge(self, other):
        self.counters.update(other.counters)
        for s in other.samples:
            if len(self.samples) < 10:
                self.samples.append(s)
        self.nontrivial |= other.nontrivial
        self.failures.extend(other.failures)
        self.known_hits.update(other.known_hits)
        self.notes.extend(other.notes)
        for k, v in other.extra.items():
            if isinstance(v, (int, float)) and isinstance(self.extra.get(k, 0), (int, float)):
                self.extra[k] = self.extra.get(k, 0) + v
            elif isinstance(v, list):
                self.extra.setdefault(k, [])
                self.extra[k].extend(v)
            else:
                self.extra[k] = v


class Ctx:
    def __init__(self, prop, tier, seed):
        self.prop = prop
        self.tier = tier
        self.seed = seed
        self.t0 = time.time()
        self.total = Shard()
        self.rule = ""
        self.assumptions = []
        self.exhaustive = None
        self.level = "exploration"
        self.known = [k for k in load_known_findings() if k["property"] == prop]
        self.open_keys = {k["key"]: k for k in self.known if k.get("status") == "open"}
        self.required_classes = []   # counters that must be > 0, else harness error
        self.budget_s = None

    # ---- time --------------------------------------------------------------------------
    def elapsed(self):
        return time.time() - self.t0

    def time_left(self):
        if self.budget_s is None:
            return 1e9
        return self.budget_s - self.elapsed()

    # ---- parallel ----------------------------------------------------------------------
    def pmap(self, fn, items, procs=None):
        """Run fn(item) -> Shard in worker processes, merge results in item order."""
        procs = procs or NPROC
        items = list(items)
        if not items:
            return
        if procs <= 1 or len(items) == 1:
            for it in items:
                self.total.merge(_guard(fn, it))
            return
        mp = multiprocessing.get_context("fork")
        with mp.Pool(min(procs, len(items))) as pool:
            for res in pool.imap(_Guarded(fn), items, chunksize=1):
                self.total.merge(res)

    # ---- finishing ---------------------------------------------------------------------
    def finish(self):
        tot = self.total
        harness_errors = [n for n in tot.notes if n.startswith("HARNESS-ERROR")]
        viol_lines = []
        seen = {}
        for f in tot.failures:
            if f["sig"] in self.open_keys:
                tot.known_hits[f["sig"]] += 1
                continue
            if f["sig"] in seen:
                continue
            seen[f["sig"]] = f
        # known findings: print once each listed-and-open entry that was observed
        for key, entry in sorted(self.open_keys.items()):
            if tot.known_hits.get(key, 0) > 0:
                print(f"KNOWN-FINDING: property={self.prop} {entry['what']}")
        for sig, f in sorted(seen.items()):
            rdir = os.path.join(VERIF_DIR, "replays", self.prop)
            os.makedirs(rdir, exist_ok=True)
            rpath = os.path.join(rdir, stable_hash(sig) + ".json")
            with open(rpath, "w") as fh:
                json.dump({"property": self.prop, "sig": sig, "what": f["what"], "replay": f["replay"]}, fh,
                          indent=1, default=repr)
            print(f"VIOLATION property={self.prop} replay={os.path.relpath(rpath, VERIF_DIR)}")
            print(f"  sig={sig}")
            for line in str(f["what"]).splitlines()[:30]:
                print("  | " + line)
            viol_lines.append(sig)
        missing = [c for c in self.required_classes if tot.counters.get(c, 0) == 0]
        evid = {
            "property_id": self.prop,
            "tier": self.tier,
            "seed": self.seed,
            "level": self.level,
            "coverage": {
                "evaluations": int(tot.counters.get("evaluations", 0)),
                "distinct_nontrivial": len(tot.nontrivial) + int(tot.counters.get("nontrivial_enumerated", 0)),
                "rule": self.rule,
                "samples": tot.samples[:10],
                "classes": {k: v for k, v in sorted(tot.counters.items())},
                "known_findings_hit": dict(tot.known_hits),
                **({"exhaustive": self.exhaustive} if self.exhaustive is not None else {}),
                **tot.extra,
            },
            "assumptions": self.assumptions,
            "wall_s": round(self.elapsed(), 2),
            "violations": len(viol_lines),
        }
        os.makedirs(os.path.join(VERIF_DIR, "evidence"), exist_ok=True)
        with open(os.path.join(VERIF_DIR, "evidence", self.prop + ".json"), "w") as fh:
            json.dump(evid, fh, indent=1, default=repr)
        print(f"[{self.prop} {self.tier} seed={self.seed}] evaluations={evid['coverage']['evaluations']} "
              f"nontrivial={evid['coverage']['distinct_nontrivial']} violations={len(viol_lines)} "
              f"known={sum(tot.known_hits.values())} wall={evid['wall_s']}s")
        if viol_lines:
            for n in harness_errors[:3]:
                print(n, file=sys.stderr)
            return 1
        if harness_errors:
            for n in harness_errors[:10]:
                print(n, file=sys.stderr)
            return 2
        if missing:
            print(f"HARNESS-ERROR: generator classes never produced: {missing}", file=sys.stderr)
            return 2
        if evid["coverage"]["evaluations"] < 1 or evid["coverage"]["distinct_nontrivial"] < 2:
            print("HARNESS-ERROR: too few cases generated", file=sys.stderr)
            return 2
        return 0


def _guard(fn, item):
    try:
        return fn(item)
    except HarnessError as e:
        s = Shard()
        s.notes.append("HARNESS-ERROR: " + str(e))
        return s
    except Exception:
        s = Shard()
        s.notes.append("HARNESS-ERROR: worker crashed on %r:\n%s" % (item, traceback.format_exc()))
        return s


class _Guarded:
    def __init__(self, fn):
        self.fn = fn

    def __call__(self, item):
        return _guard(self.fn, item)


# ---- Hypothesis driving ----------------------------------------------------------------

def hyp_run(shard, body, strategy, max_examples, seed, known_keys=(), shrink=True, stop_at=None):
    """
    Drive body(value) with values from `strategy`.
    body raises Failure(sig, what, replay) on a violation.  Failures whose sig is in known_keys are
    counted (shard.known_hits) and do not stop the search.  The first unknown failure is shrunk
    (keeping its signature) and recorded.  stop_at: absolute time.time() after which generation
    is cut short (inconclusive beyond what was generated; never a verdict).
    """
    import hypothesis
    from hypothesis import given, settings, HealthCheck, Phase

    state = {"target": None}
    phases = [Phase.explicit, Phase.generate] + ([Phase.shrink] if shrink else [])

    @hypothesis.seed(seed)
    @settings(max_examples=max_examples, database=None, deadline=None, report_multiple_bugs=False,
              suppress_health_check=list(HealthCheck), phases=phases, derandomize=False,
              verbosity=hypothesis.Verbosity.quiet)
    @given(strategy)
    def test(value):
        if state.get("abort") is not None:
            return
        if stop_at is not None and state["target"] is None and time.time() > stop_at:
            shard.event("budget_cut")
            return
        try:
            body(value)
        except HarnessError as e:
            state["abort"] = "HarnessError: %s" % e
            return
        except Failure as f:
            if f.sig in known_keys:
                shard.known_hits[f.sig] += 1
                return
            if state["target"] is None:
                state["target"] = f.sig
            if f.sig != state["target"]:
                return
            state["last"] = f
            raise
        except Exception:
            state["abort"] = traceback.format_exc()
            return

    try:
        test()
    except Failure as f:
        f = state.get("last", f)
        shard.failures.append({"sig": f.sig, "what": f.what, "replay": f.replay})
    except hypothesis.errors.Unsatisfiable as e:
        raise HarnessError("generator unsatisfiable: %s" % e)
    except hypothesis.errors.Flaky as e:
        shard.notes.append("HARNESS-ERROR: flaky case (non-deterministic check body): %s" % e)
    if state.get("abort") is not None:
        raise HarnessError("check body crashed:\n" + state["abort"])
