"""
RI: reference interpreter of the *procedural reading* of nmfu programs over the IR (DESIGN.md section 4).
Written from docs/user-ref/parser.md only; it never looks at nmfu's data structures.  Lookahead decisions use
the independent regex engine (vlib/rx.py); arithmetic uses vlib/evalir.py + vlib/carith.py.

run(prog, word, call_end) -> Outcome(events, terminal, final, pending, note)
    events   : list of (g, kind, payload)       g = number of bytes consumed when the event happened
    terminal : None | ('fail', g) | ('done', g) | ('finish', code_name, g)
    pending  : True when the interpreter stopped because it needed a byte that the input does not contain yet
"""
from . import carith, evalir, ir, rx
from .carith import Undefined

END = ir.END


class NeedMore(Exception):
    pass


class NoMatch(Exception):
    reason = "nomatch"


class OutOfSpace(Exception):
    reason = "outofspace"


class Finished(Exception):
    def __init__(self, code):
        self.code = code


class BreakLoop(Exception):
    def __init__(self, name):
        self.name = name


class Ambiguous(Exception):
    pass


class Unsupported(Exception):
    pass


class Outcome:
    def __init__(self):
        self.events = []
        self.terminal = None
        self.final = None
        self.pending = False
        self.note = None
        self.optional = set()     # indices into events: strict events that were pending (same gap) when a *handled* error struck (T3)


_auto_cache = {}


def auto_of(m):
    a = _auto_cache.get(m)
    if a is None:
        core = ir.match_core(m)
        if core is None:
            raise Unsupported("match without a regular core")
        a = rx.Auto(core)
        if len(_auto_cache) > 5000:
            _auto_cache.clear()
        _auto_cache[m] = a
    return a


class Interp:
    def __init__(self, prog, word, call_end=False, eof=False):
        self.p = prog
        self.word = bytes(word)
        self.call_end = call_end
        self.eof = eof
        self.pos = 0
        self.end_consumed = False
        self.out = Outcome()
        self.vars = {}
        self.types = {}
        self.bufs = {}
        self.foreach_stack = []
        self.last = None
        self.pending_vars = set()     # outputs assigned by plain (non-strict) actions since the last consumed byte
        self.gap_start = 0            # index of the first event emitted since the last consumed byte
        self.tainted = set()          # outputs whose value is uncertain: such an action was pending when an error struck (T3)
        for o in prog.outs:
            k = o[0]
            if k == "int":
                t = carith.int_type(True if o[2] is None else o[2], o[3])
                self.types[o[1]] = t
                self.vars[o[1]] = carith.convert(t, o[4]) if o[4] is not None else 0
            elif k == "bool":
                self.types[o[1]] = carith.BOOL
                self.vars[o[1]] = 1 if o[2] else 0
            elif k == "enum":
                self.types[o[1]] = ("enum", o[2])
                self.vars[o[1]] = 0
            elif k == "str":
                self.bufs[o[1]] = {"kind": "str", "size": o[2], "term": o[3], "cap": o[2] - (1 if o[3] else 0)}
                self.vars[o[1]] = bytearray(o[4] or b"")
            elif k == "raw":
                size = {"int8_t": 1, "uint8_t": 1, "int16_t": 2, "uint16_t": 2, "int32_t": 4, "uint32_t": 4, "int64_t": 8, "uint64_t": 8,
                        "float": 4, "double": 8}[o[2]]
                self.bufs[o[1]] = {"kind": "raw", "size": size, "term": False, "cap": size, "rawmax": size}
                self.vars[o[1]] = bytearray()

    # ------------------------------------------------------------------ input
    def peek(self):
        """Next symbol: byte, END (only once end() was called), or raises NeedMore."""
        if self.pos < len(self.word):
            return self.word[self.pos]
        if self.call_end and not self.end_consumed:
            return END
        raise NeedMore()

    def consume(self, sym, pre=None):
        """Consume one symbol: enclosing foreach actions run first (outermost first), then `pre` (the append of this
        byte, which may raise OutOfSpace leaving the byte unconsumed), then the position advances."""
        if sym == END:
            self.end_consumed = True
            return
        for acts in self.foreach_stack:
            for a in acts:
                self.exec_stmt(a, foreach_byte=sym)
        if pre is not None:
            pre(sym)
        self.pos += 1
        self.last = sym
        self.pending_vars = set()
        self.gap_start = len(self.out.events)

    # ------------------------------------------------------------------ helpers
    def snapshot(self):
        out = []
        for k in sorted(self.vars):
            v = self.vars[k]
            if k in self.tainted:
                out.append((k, "?"))
            else:
                out.append((k, (len(v), bytes(v)) if isinstance(v, bytearray) else v))
        return tuple(out)

    def plain_write(self, var, selfref=False):
        if selfref and var in self.tainted:
            return          # stays uncertain
        self.tainted.discard(var)
        self.pending_vars.add(var)

    def ev(self, kind, *payload):
        self.out.events.append((self.pos, kind, tuple(payload)))

    def env(self, last=None):
        ints = {}
        bools = {}
        enums = {}
        for n, t in self.types.items():
            if t == carith.BOOL:
                bools[n] = self.vars[n]
            elif isinstance(t, tuple) and t and t[0] == "enum":
                enums[n] = (t[1], self.vars[n])
            else:
                ints[n] = (t, self.vars[n])
        bufs = {n: dict(b, data=bytes(self.vars[n])) for n, b in self.bufs.items()}
        return evalir.Env(ints=ints, bools=bools, bufs=bufs, last=last, enums=enums)

    # ------------------------------------------------------------------ matches
    def run_match(self, m, on_byte=None):
        if m[0] == "end":
            s = self.peek()
            if s != END:
                raise NoMatch()
            self.consume(END)
            return
        if m[0] == "cat" and any(x[0] == "end" for x in m[1]):
            for x in m[1]:
                self.run_match(x, on_byte)
            return
        a = auto_of(m)
        q = a.start
        while True:
            if rx.nullable(q):
                if not any(rx.deriv(q, min(cls)) != rx.EMPTY for cls in a.classes):
                    return
                s = self.peek()       # may raise NeedMore: the match could still continue
                if s == END or a.step(q, s) == rx.EMPTY:
                    return
            else:
                s = self.peek()
                if s == END or a.step(q, s) == rx.EMPTY:
                    raise NoMatch()
            self.consume(s, on_byte)  # on_byte may raise OutOfSpace before the byte is consumed
            q = a.step(q, s)

    def append_byte(self, var, b):
        buf = self.vars[var]
        if len(buf) >= self.bufs[var]["cap"]:
            raise OutOfSpace()
        buf.append(b)
        self.ev("append", var, b)

    # ------------------------------------------------------------------ statements
    def exec_body(self, body):
        for s in body:
            self.exec_stmt(s)

    def exec_stmt(self, s, foreach_byte=None):
        k = s[0]
        last = foreach_byte
        if k == "match":
            self.run_match(s[1])
        elif k == "append":
            # (the foreach actions of the same byte run in consume(), after the byte has been stored)
            self.run_match(s[2], on_byte=lambda b, var=s[1]: self.append_byte(var, b))
        elif k == "appendc":
            v = evalir.ev(s[2], self.env(last))
            self.append_byte(s[1], carith.convert(carith.U8, v[1]))
        elif k == "assign":
            t = self.types[s[1]]
            if isinstance(t, tuple) and t and t[0] == "enum":
                self.vars[s[1]] = t[1].index(s[2][1])
            else:
                v = evalir.ev(s[2], self.env(last))
                self.vars[s[1]] = carith.convert(t, v[1])
            self.plain_write(s[1], selfref=(s[2][0] != "enum" and _reads_var(s[2], s[1])))
            self.ev("set", s[1], self.vars[s[1]] if s[1] not in self.tainted else "?")
        elif k == "assignstr":
            self.plain_write(s[1])
            self.vars[s[1]] = bytearray(s[2])
            self.ev("delete" if not s[2] else "setstr", *((s[1],) if not s[2] else (s[1], bytes(s[2]))))
        elif k == "delete":
            self.plain_write(s[1])
            self.vars[s[1]] = bytearray()
            self.ev("delete", s[1])
        elif k == "hook":
            self.ev("hook", s[1], self.snapshot())
        elif k == "finish":
            raise Finished(s[1])
        elif k == "yield":
            self.ev("yield", s[1])
        elif k == "break":
            raise BreakLoop(s[1])
        elif k == "wait":
            self.run_wait(s[1])
        elif k == "loop":
            while True:
                try:
                    self.exec_body(s[2])
                except BreakLoop as b:
                    if b.name is None or b.name == s[1]:
                        break
                    raise
        elif k == "optional":
            first = ir.body_summary(s[1], []).first
            try:
                c = self.peek()
            except NeedMore:
                raise
            if c in first:
                self.exec_body(s[1])
        elif k == "case":
            self.run_case(s)
        elif k == "try":
            reasons = s[1] or ("nomatch", "outofspace")
            try:
                self.exec_body(s[2])
            except (NoMatch, OutOfSpace) as e:
                if e.reason not in reasons:
                    raise
                # plain actions of this gap may or may not have been performed by an implementation when the error struck
                self.tainted |= self.pending_vars
                self.out.optional |= set(range(self.gap_start, len(self.out.events)))
                self.exec_body(s[3])
        elif k == "foreach":
            self.foreach_stack.append(s[2])
            try:
                self.exec_body(s[1])
            finally:
                self.foreach_stack.pop()
        elif k == "if":
            for cond, body in s[1]:
                if carith.truth(evalir.ev(cond, self.env(last))):
                    self.exec_body(body)
                    return
            if s[2] is not None:
                self.exec_body(s[2])
        else:
            raise Unsupported(k)

    def run_wait(self, m):
        a = auto_of(m)
        q = a.start
        while not rx.nullable(q):
            s = self.peek()
            if s == END:
                # end-of-input during a wait changes nothing: the parse stays incomplete
                raise NeedMore()
            self.consume(s)
            q = rx.restart_step(a, q, s)

    def run_case(self, s):
        greedy = s[1]
        live = []
        else_body = None
        for pats, prio, body in s[2]:
            for p in pats:
                if p == "else":
                    else_body = body
                else:
                    if p[0] == "end":
                        live.append([body, prio or 0, "END", p])
                    else:
                        live.append([body, prio or 0, auto_of(p).start, p])
        while True:
            acc = [(b, pr) for b, pr, q, p in live if q != "END" and rx.nullable(q)]
            can_continue = any(q == "END" or any(rx.deriv(q, min(cls)) != rx.EMPTY for cls in auto_of(p).classes) for b, pr, q, p in live)
            if acc and (not greedy or not can_continue):
                return self.exec_body(self.pick(acc))
            sym = self.peek()
            nxt = []
            for b, pr, q, p in live:
                if q == "END":
                    if sym == END:
                        nxt.append([b, pr, "ENDDONE", p])
                    continue
                if sym == END:
                    continue
                n = auto_of(p).step(q, sym)
                if n != rx.EMPTY:
                    nxt.append([b, pr, n, p])
            enddone = [x for x in nxt if x[2] == "ENDDONE"]
            if enddone:
                self.consume(END)
                return self.exec_body(enddone[0][0])
            if not nxt:
                if greedy and acc:
                    return self.exec_body(self.pick(acc))
                if else_body is not None:
                    return self.exec_body(else_body)
                raise NoMatch()
            self.consume(sym)
            live = nxt

    @staticmethod
    def pick(acc):
        best = max(pr for _, pr in acc)
        win = [b for b, pr in acc if pr == best]
        if len(set(map(id, win))) > 1:
            raise Ambiguous()
        return win[0]

    # ------------------------------------------------------------------ driver
    def run(self):
        out = self.out
        try:
            self.exec_body(self.p.body)
            out.terminal = ("done", self.pos)
        except NeedMore:
            out.pending = True
        except (NoMatch, OutOfSpace):
            out.terminal = ("fail", self.pos)
        except Finished as f:
            out.terminal = ("finish", f.code, self.pos)
        except BreakLoop:
            out.note = "break outside loop"
            out.terminal = ("fail", self.pos)
        out.final = dict(self.snapshot())
        return out


def _reads_var(e, name):
    if e[0] in ("var", "len") and e[1] == name:
        return True
    if e[0] == "idx":
        return e[1] == name or _reads_var(e[2], name)
    if e[0] == "bin":
        return _reads_var(e[2], name) or _reads_var(e[3], name)
    if e[0] in ("not", "neg"):
        return _reads_var(e[1], name)
    return False


def run(prog, word, call_end=False):
    it = Interp(prog, word, call_end)
    return it.run()
