"""
Input generation guided by the compiled machine (used only to *choose* inputs, never as an oracle).
A list of small integers (drawn by Hypothesis, so it shrinks) is decoded into a byte string that mostly
follows labelled transitions and sometimes deviates.
"""
import nmfu

from . import am as am_mod

DFT = nmfu.DFTransition


def next_labels(machine, state, limit=64):
    """Bytes labelled on non-error transitions reachable from `state` through non-consuming edges."""
    seen = set()
    good = set()
    err = set()
    work = [state]
    while work and len(seen) < limit:
        s = work.pop()
        if id(s) in seen or s is machine.fail:
            continue
        seen.add(id(s))
        for t in s.transitions:
            if isinstance(t, nmfu.DFConditionalTransition):
                work.append(t.target)
                continue
            labels = [ord(c) for c in t.on_values if isinstance(c, str)]
            if t.error_handling:
                err.update(labels)
            else:
                good.update(labels)
            if t.is_fallthrough and t.target is not None:
                work.append(t.target)
            for a in t.actions:
                for tgt in a.get_target_override_targets():
                    work.append(tgt)
    return sorted(good), sorted(err)


def guided_input(machine, choices, max_len=24, alphabet=()):
    """Decode `choices` (ints) into bytes using the machine as a guide. Returns bytes."""
    out = bytearray()
    try:
        cfg, r = machine.start()
    except (am_mod.Undefined, am_mod.Spin, am_mod.Broken):
        return bytes(c & 255 for c in choices[:max_len])
    if r.code != 0:
        return bytes(c & 255 for c in choices[:4])
    it = iter(choices)
    extra = list(alphabet) or [0x61, 0x62, 0x63, 0x30, 0x20, 0x00, 0xff]
    nyield = 3 + len(machine.finish_codes)
    while len(out) < max_len:
        c = next(it, None)
        if c is None:
            break
        good, err = next_labels(machine, cfg.state)
        mode = c & 15
        pick = c >> 4
        if good and mode != 0:
            b = good[pick % len(good)]
        elif mode == 0 and err and (pick & 1):
            b = err[(pick >> 1) % len(err)]
        else:
            b = extra[pick % len(extra)]
        out.append(b)
        try:
            chunk = bytes([b])
            guard = 0
            while True:
                res = machine.feed(cfg, chunk)
                if res.code >= nyield and guard < 50:
                    chunk = chunk[res.ptr:]
                    guard += 1
                    continue
                break
        except (am_mod.Undefined, am_mod.Spin, am_mod.Broken):
            break
        if res.code in (1, 2) or (3 <= res.code < nyield):
            # terminal: add a couple of trailing bytes to exercise calls after the end
            for c2 in (next(it, None), next(it, None)):
                if c2 is not None:
                    out.append(extra[c2 % len(extra)])
            break
    return bytes(out)
