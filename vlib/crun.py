"""
CRUN: build the generated C of an accepted compilation together with a generated driver, run scripted
call schedules, and return event traces.

Driver script (binary, stdin):
  'S' u8 flags        new run. bit0: move the state struct to a fresh heap block before every API call
                               bit1: snapshot after every API call
  'F' u32 n, bytes    feed one chunk (copied to an exact-size heap block); in indirect mode feed is
                      re-invoked while it returns yield codes
  'E'                 <parser>_end (if generated)        'X'  <parser>_free (if generated)
  'D'                 snapshot                           'K' u32  force state->state
  'P' u32 idx, i64 v  poke scalar output                 'Q' u32 idx, u32 n, bytes  poke string/raw content
  'N' u32 idx         make an on-demand string buffer NULL (freeing it)
  'Z'                 end of run: release the state struct block
Output (text, stdout): one event per line, see parse_log().
"""
import atexit
import os
import shutil
import struct
import subprocess
import tempfile

import nmfu

OST = nmfu.OutputStorageType

_WORKDIRS = []


def _cleanup():
    for d in _WORKDIRS:
        shutil.rmtree(d, ignore_errors=True)


atexit.register(_cleanup)


def new_workdir(prefix="nmfuverif"):
    base = os.environ.get("TMPDIR") or "/tmp"
    d = tempfile.mkdtemp(prefix=prefix + "-", dir=base)
    _WORKDIRS.append(d)
    return d


def drop_workdir(d):
    shutil.rmtree(d, ignore_errors=True)
    if d in _WORKDIRS:
        _WORKDIRS.remove(d)


class VarInfo:
    def __init__(self, idx, out, dynamic):
        self.idx = idx
        self.name = out.name
        self.type = out.type
        self.out = out
        self.dynamic = dynamic and out.type == OST.STR
        if out.type == OST.STR:
            self.size = out.str_size
            self.term = out.str_null
            self.cap = out.effective_string_size()
        elif out.type == OST.RAW:
            self.size = None
            self.term = False
        self.signed = getattr(out, "int_signed", True)
        self.width = getattr(out, "int_width", None)


class ProgInfo:
    """Everything the driver generator and the log parser need to know about one compilation."""

    def __init__(self, compiled):
        self.name = compiled.name
        self.indirect = compiled.do("INDIRECT_START_PTR")
        self.eof = compiled.do("EOF_SUPPORT")
        self.dynmem = compiled.do("DYNAMIC_MEMORY")
        self.dynamic = compiled.do("ALLOCATE_STR_SPACE_DYNAMIC")
        self.ondemand = compiled.do("ALLOCATE_STR_SPACE_DYNAMIC_ON_DEMAND")
        self.hook_per_state = compiled.do("HOOK_PER_STATE")
        self.hook_global = compiled.do("HOOK_GLOBAL")
        self.u8 = compiled.do("STRINGS_AS_U8")
        self.hooks = list(compiled.dctx.hooks)
        self.finish_codes = list(compiled.dctx.finish_codes)
        self.yield_codes = list(compiled.dctx.yield_codes)
        self.vars = [VarInfo(i, o, self.dynamic) for i, o in enumerate(compiled.dctx.state_object_spec.values())]
        self.nstates = len(compiled.dfa.states)
        self.codes = ["OK", "FAIL", "DONE"] + ["FINISH_" + c for c in self.finish_codes] + ["YIELD_" + c for c in self.yield_codes]
        self.first_yield = 3 + len(self.finish_codes)

    def code_name(self, k):
        return self.codes[k] if 0 <= k < len(self.codes) else "CODE_%d" % k

    def is_yield(self, k):
        return k >= self.first_yield and k < len(self.codes)

    def is_terminal(self, k):
        return k == 1 or k == 2 or (3 <= k < self.first_yield)


def gen_driver(info: ProgInfo):
    n = info.name
    o = []
    w = o.append
    w('#include "%s.h"' % n)
    w("#include <stdio.h>\n#include <stdlib.h>\n#include <string.h>\n#include <signal.h>\n#include <unistd.h>\n#include <stdint.h>")
    w("typedef %s_state_t ST;" % n)
    w("static ST *cur; static long base_off; static FILE *out; static unsigned char *blk; static size_t GUARD = 32;")
    w("static void hang(int s) { (void)s; fprintf(out, \"HANG\\n\"); fflush(out); _exit(3); }")
    # snapshot
    w("static void snap(ST *s) {")
    w('  fprintf(out, "st=%u", (unsigned)s->state);')
    for v in info.vars:
        if v.type == OST.INT:
            if v.signed:
                w('  fprintf(out, ";%s=%%lld", (long long)s->c.%s);' % (v.name, v.name))
            else:
                w('  fprintf(out, ";%s=%%llu", (unsigned long long)s->c.%s);' % (v.name, v.name))
        elif v.type == OST.BOOL:
            w('  fprintf(out, ";%s=%%u", (unsigned)*(unsigned char *)&s->c.%s);' % (v.name, v.name))
        elif v.type == OST.ENUM:
            w('  { long long e = 0; memcpy(&e, &s->c.%s, sizeof(s->c.%s)); fprintf(out, ";%s=%%lld", e); }' % (v.name, v.name, v.name))
        elif v.type == OST.STR:
            w('  { const unsigned char *b = (const unsigned char *)s->c.%s; unsigned long cnt = s->%s_counter; unsigned long i;' % (v.name, v.name))
            w('    fprintf(out, ";%s=%%lu:", cnt);' % v.name)
            if v.dynamic:
                w('    if (!b) fprintf(out, "NULL"); else {')
            else:
                w('    {')
            w('      for (i = 0; i < cnt && i < %d; ++i) fprintf(out, "%%02x", b[i]);' % v.size)
            w('      if (cnt < %d) fprintf(out, ":t%%02x", b[cnt]); else fprintf(out, ":tXX");' % v.size)
            w('    } }')
        elif v.type == OST.RAW:
            w('  { const unsigned char *b = (const unsigned char *)&s->c.%s; unsigned long cnt = s->%s_counter; unsigned long i;' % (v.name, v.name))
            w('    fprintf(out, ";%s=%%lu:", cnt);' % v.name)
            w('    for (i = 0; i < cnt && i < sizeof(s->c.%s); ++i) fprintf(out, "%%02x", b[i]);' % v.name)
            w('    fprintf(out, ":r%%lu", (unsigned long)sizeof(s->c.%s)); }' % v.name)
    w('  fprintf(out, "\\n");')
    w("}")
    # hooks
    for h in info.hooks:
        if info.hook_per_state:
            w("static void hook_%s(ST *s, uint8_t inval) {" % h)
        else:
            w("void %s_%s_hook(ST *s, uint8_t inval) {" % (n, h))
        w('  fprintf(out, "H %s %%u ", (unsigned)inval); snap(s); }' % h)
    # guard handling
    w("static ST *alloc_state(void) { blk = malloc(sizeof(ST) + 2 * GUARD); memset(blk, 0xC3, sizeof(ST) + 2 * GUARD); return (ST *)(blk + GUARD); }")
    w("static void check_guard(void) { size_t i; for (i = 0; i < GUARD; ++i) if (blk[i] != 0xC3 || blk[GUARD + sizeof(ST) + i] != 0xC3) { fprintf(out, \"GUARD-CORRUPT\\n\"); fflush(out); _exit(4); } }")
    w("static void move_state(void) { unsigned char *nb = malloc(sizeof(ST) + 2 * GUARD); memcpy(nb, blk, sizeof(ST) + 2 * GUARD); memset(blk, 0x5A, sizeof(ST) + 2 * GUARD); free(blk); blk = nb; cur = (ST *)(blk + GUARD); }")
    w("static unsigned rd_u32(void) { unsigned char b[4]; if (fread(b, 1, 4, stdin) != 4) exit(5); return b[0] | (b[1] << 8) | (b[2] << 16) | ((unsigned)b[3] << 24); }")
    w("static long long rd_i64(void) { unsigned char b[8]; unsigned long long v = 0; int i; if (fread(b, 1, 8, stdin) != 8) exit(5); for (i = 7; i >= 0; --i) v = (v << 8) | b[i]; return (long long)v; }")
    w("int main(void) { int c; int flags = 0; int dead = 0; out = stdout; signal(SIGALRM, hang);")
    w("  static char obuf[1 << 16]; setvbuf(stdout, obuf, _IOFBF, sizeof obuf);")
    w("  while ((c = getchar()) != EOF) { switch (c) {")
    # S
    w("  case 'S': { flags = getchar(); dead = 0; fprintf(out, \"B\\n\"); cur = alloc_state(); memset(cur, 0xA5, sizeof(ST)); base_off = 0;")
    for v in info.vars:
        if v.type in (OST.INT, OST.BOOL, OST.ENUM) and v.out.default_value is None:
            w("    memset(&cur->c.%s, 0, sizeof(cur->c.%s));" % (v.name, v.name))
    if info.hook_per_state:
        for h in info.hooks:
            w("    cur->%s_hook = hook_%s;" % (h, h))
    w("    alarm(5); { int r = (int)%s_start(cur); alarm(0); fprintf(out, \"R start %%d -1 \", r); snap(cur); if (r != 0) dead = 1; } check_guard(); break; }" % n)
    # F
    w("  case 'F': { unsigned len = rd_u32(); unsigned char *buf = malloc(len ? len : 1); const uint8_t *p, *e; int r; int guard = 0;")
    w("    if (len && fread(buf, 1, len, stdin) != len) exit(5);")
    w("    if (dead) { free(buf); break; }   /* the program finished: further calls are outside the documented protocol */")
    w("    if (flags & 1) move_state();")
    w("    p = buf; e = buf + len;")
    if info.indirect:
        w("    do { alarm(5); r = (int)%s_feed(&p, e, cur); alarm(0);" % n)
        w("      fprintf(out, \"R feed %d %ld \", r, base_off + (long)(p - buf)); snap(cur); check_guard();")
        w("      if (++guard > 100000) { fprintf(out, \"YIELDSPIN\\n\"); fflush(out); _exit(3); }")
        w("    } while (r >= %d && r < %d);" % (info.first_yield, len(info.codes)))
        w("    if (r == 2 || (r >= 3 && r < %d)) dead = 1;" % info.first_yield)
    else:
        w("    alarm(5); r = (int)%s_feed(p, e, cur); alarm(0); (void)guard;" % n)
        w("    fprintf(out, \"R feed %d -1 \", r); snap(cur); check_guard();")
        w("    if (r == 2 || (r >= 3 && r < %d)) dead = 1;" % info.first_yield)
    w("    base_off += len; memset(buf, 0xEE, len); free(buf); break; }")
    # E
    w("  case 'E': {")
    if info.eof:
        w("    int r; if (dead) break; if (flags & 1) move_state(); alarm(5); r = (int)%s_end(cur); alarm(0); fprintf(out, \"R end %%d -1 \", r); snap(cur); check_guard(); if (r == 2 || (r >= 3 && r < %d)) dead = 1;" % (n, info.first_yield))
    else:
        w("    fprintf(out, \"NOEND\\n\");")
    w("    break; }")
    # X
    w("  case 'X': {")
    if info.dynmem:
        w("    %s_free(cur); fprintf(out, \"R free 0 -1 \"); snap(cur); check_guard();" % n)
    else:
        w("    fprintf(out, \"NOFREE\\n\");")
    w("    break; }")
    w("  case 'D': fprintf(out, \"D \"); snap(cur); break;")
    w("  case 'K': cur->state = rd_u32(); break;")
    # P
    w("  case 'P': { unsigned idx = rd_u32(); long long v = rd_i64(); switch (idx) {")
    for v in info.vars:
        if v.type == OST.INT:
            w("    case %d: cur->c.%s = v; break;" % (v.idx, v.name))
        elif v.type == OST.BOOL:
            w("    case %d: cur->c.%s = (v != 0); break;" % (v.idx, v.name))
        elif v.type == OST.ENUM:
            w("    case %d: { long long e = v; memcpy(&cur->c.%s, &e, sizeof(cur->c.%s)); break; }" % (v.idx, v.name, v.name))
    w("    default: break; } break; }")
    # Q
    w("  case 'Q': { unsigned idx = rd_u32(); unsigned len = rd_u32(); unsigned char tmp[4096]; if (len > sizeof tmp) exit(5); if (len && fread(tmp, 1, len, stdin) != len) exit(5); switch (idx) {")
    for v in info.vars:
        if v.type == OST.STR:
            w("    case %d: {" % v.idx)
            if v.dynamic:
                w("      if (!cur->c.%s) cur->c.%s = malloc(%d);" % (v.name, v.name, v.size))
            w("      memcpy(cur->c.%s, tmp, len); cur->%s_counter = len;" % (v.name, v.name))
            if v.term:
                w("      if (len < %d) cur->c.%s[len] = 0;" % (v.size, v.name))
            w("      break; }")
        elif v.type == OST.RAW:
            w("    case %d: memcpy(&cur->c.%s, tmp, len); cur->%s_counter = len; break;" % (v.idx, v.name, v.name))
    w("    default: break; } break; }")
    # N
    w("  case 'N': { unsigned idx = rd_u32(); switch (idx) {")
    for v in info.vars:
        if v.type == OST.STR and v.dynamic:
            w("    case %d: free(cur->c.%s); cur->c.%s = NULL; cur->%s_counter = 0; break;" % (v.idx, v.name, v.name, v.name))
    w("    default: break; } break; }")
    w("  case 'Z': check_guard(); memset(blk, 0x5A, sizeof(ST) + 2 * GUARD); free(blk); blk = NULL; cur = NULL; fprintf(out, \"Z\\n\"); break;")
    w("  default: fprintf(out, \"BADCMD %d\\n\", c); fflush(out); return 6; } }")
    w("  fflush(out); return 0; }")
    return "\n".join(o) + "\n"


class Script:
    def __init__(self):
        self.b = bytearray()

    def start(self, move=True, snap=True):
        self.b += b"S" + bytes([(1 if move else 0) | (2 if snap else 0)])
        return self

    def feed(self, data):
        self.b += b"F" + struct.pack("<I", len(data)) + bytes(data)
        return self

    def feed_chunks(self, data, cuts):
        """cuts: sorted cut positions strictly inside (0, len)"""
        prev = 0
        for c in list(cuts) + [len(data)]:
            self.feed(data[prev:c])
            prev = c
        return self

    def end(self):
        self.b += b"E"
        return self

    def free(self):
        self.b += b"X"
        return self

    def dump(self):
        self.b += b"D"
        return self

    def setstate(self, k):
        self.b += b"K" + struct.pack("<I", k)
        return self

    def poke(self, idx, value):
        self.b += b"P" + struct.pack("<IQ", idx, value & 0xFFFFFFFFFFFFFFFF)
        return self

    def poke_str(self, idx, data):
        self.b += b"Q" + struct.pack("<II", idx, len(data)) + bytes(data)
        return self

    def null(self, idx):
        self.b += b"N" + struct.pack("<I", idx)
        return self

    def stop(self):
        self.b += b"Z"
        return self


class Snap:
    __slots__ = ("state", "vars")

    def __init__(self, state, vars_):
        self.state = state
        self.vars = vars_

    def key(self, with_state=False):
        items = tuple(sorted(self.vars.items()))
        return (self.state, items) if with_state else items

    def __repr__(self):
        return "st=%d %r" % (self.state, self.vars)


def parse_snap(text):
    parts = text.strip().split(";")
    state = int(parts[0][3:])
    vars_ = {}
    for p in parts[1:]:
        name, val = p.split("=", 1)
        if ":" in val:
            f = val.split(":")
            cnt = int(f[0])
            if f[1] == "NULL":
                vars_[name] = (cnt, None, None)
            else:
                vars_[name] = (cnt, bytes.fromhex(f[1]), f[2])
        else:
            vars_[name] = int(val)
    return Snap(state, vars_)


class Event:
    __slots__ = ("kind", "name", "code", "off", "inval", "snap")

    def __init__(self, kind, name=None, code=None, off=None, inval=None, snap=None):
        self.kind = kind
        self.name = name
        self.code = code
        self.off = off
        self.inval = inval
        self.snap = snap

    def __repr__(self):
        if self.kind == "R":
            return "<%s %s off=%s %r>" % (self.name, self.code, self.off, self.snap)
        if self.kind == "H":
            return "<hook %s inval=%s %r>" % (self.name, self.inval, self.snap)
        return "<%s>" % self.kind


def parse_log(text):
    """Returns list of runs; each run is a list of Event."""
    runs = []
    cur = None
    for line in text.splitlines():
        if not line:
            continue
        if line == "B":
            cur = []
            runs.append(cur)
        elif line.startswith("R "):
            _, what, code, off, rest = line.split(" ", 4)
            cur.append(Event("R", name=what, code=int(code), off=int(off), snap=parse_snap(rest)))
        elif line.startswith("H "):
            _, name, inval, rest = line.split(" ", 3)
            cur.append(Event("H", name=name, inval=int(inval), snap=parse_snap(rest)))
        elif line.startswith("D "):
            cur.append(Event("D", snap=parse_snap(line[2:])))
        else:
            if cur is None:
                cur = []
                runs.append(cur)
            cur.append(Event(line.split()[0]))
    return runs


class CrashError(Exception):
    def __init__(self, rc, stdout, stderr):
        super().__init__("driver exited %s: %s" % (rc, stderr[-2000:]))
        self.rc = rc
        self.stdout = stdout
        self.stderr = stderr


class BuildError(Exception):
    pass


GCC_FLAGS = ["gcc", "-O0", "-w", "-std=gnu11"]
ASAN_FLAGS = ["clang", "-O1", "-g", "-w", "-std=gnu11", "-fsanitize=address,undefined,bounds",
              "-fno-sanitize-recover=all", "-fno-omit-frame-pointer"]


class Binary:
    def __init__(self, compiled, workdir=None, sanitize=False, tag="b", extra_cflags=()):
        self.info = ProgInfo(compiled)
        self.own_dir = workdir is None
        self.dir = workdir or new_workdir()
        self.sub = os.path.join(self.dir, tag)
        os.makedirs(self.sub, exist_ok=True)
        n = self.info.name
        with open(os.path.join(self.sub, n + ".h"), "w") as f:
            f.write(compiled.header)
        with open(os.path.join(self.sub, n + ".c"), "w") as f:
            f.write(compiled.source)
        with open(os.path.join(self.sub, "drv.c"), "w") as f:
            f.write(gen_driver(self.info))
        self.exe = os.path.join(self.sub, "drv")
        cmd = (ASAN_FLAGS if sanitize else GCC_FLAGS) + list(extra_cflags) + ["-o", self.exe, n + ".c", "drv.c"]
        r = subprocess.run(cmd, cwd=self.sub, capture_output=True, text=True)
        if r.returncode != 0:
            raise BuildError(r.stderr[-4000:])
        self.sanitize = sanitize

    def run_raw(self, script, timeout=120):
        env = dict(os.environ)
        env["ASAN_OPTIONS"] = "detect_leaks=1:abort_on_error=0:allocator_may_return_null=1:symbolize=1"
        env["UBSAN_OPTIONS"] = "print_stacktrace=1:halt_on_error=1"
        data = bytes(script.b if isinstance(script, Script) else script)
        try:
            r = subprocess.run([self.exe], input=data, capture_output=True, env=env, timeout=timeout)
        except subprocess.TimeoutExpired as e:
            raise CrashError("timeout", (e.stdout or b"").decode("latin-1"), "driver timeout")
        return r.returncode, r.stdout.decode("latin-1"), r.stderr.decode("latin-1")

    def run(self, script, timeout=120):
        rc, out, err = self.run_raw(script, timeout)
        if rc != 0:
            raise CrashError(rc, out, err)
        return parse_log(out)

    def close(self):
        if self.own_dir:
            drop_workdir(self.dir)
        else:
            shutil.rmtree(self.sub, ignore_errors=True)
