"""
IR of nmfu programs (plain tuples), printer to nmfu source, and the structural First/Tail analysis the
generators use to build LL(1)-clean programs by construction.

Match:  ('lit', bytes, mode in str|casei|bin) | ('re', surface_regex, binary) | ('cat', (m...)) | ('end',) | ('arg', name)
Expr:   ('num', v, radix) ('chr', b) ('bool', v) ('var', n) ('len', n) ('idx', n, e) ('last',) ('enum', n)
        ('bin', op, l, r) ('not', e) ('neg', e) ('arg', name)
Stmt:   ('match', m) ('append', var, m) ('appendc', var, e) ('assign', var, e) ('assignstr', var, bytes)
        ('delete', var) ('hook', name) ('finish', code|None) ('yield', code) ('break', name|None) ('wait', m)
        ('loop', name|None, body) ('case', greedy, clauses) ('optional', body) ('try', reasons|None, body, handler)
        ('foreach', body, actions) ('if', branches, else_body|None) ('call', macro, args)
        clause = (patterns, prio|None, body), patterns = tuple of Match | 'else';  branches = tuple of (expr, body)
Out:    ('int', name, signed, size|None, default|None) ('bool', name, default|None) ('enum', name, values, default|None)
        ('str', name, size, terminated, default bytes|None, default_is_binary) ('raw', name, ctype)
"""
from . import rx, spell

END = 256


class Program:
    def __init__(self, outs=(), hooks=(), fcodes=(), ycodes=(), macros=(), body=(), argv=()):
        self.outs = list(outs)
        self.hooks = list(hooks)
        self.fcodes = list(fcodes)
        self.ycodes = list(ycodes)
        self.macros = list(macros)      # (name, params[(kind, pname)], body)
        self.body = tuple(body)
        self.argv = list(argv)

    def out(self, name):
        for o in self.outs:
            if o[1] == name:
                return o
        raise KeyError(name)

    def source(self):
        return print_program(self)

    def describe(self):
        return {"argv": self.argv, "source": self.source()}


# ------------------------------------------------------------------------------------------------ printing

PREC = {"||": 0, "&&": 1, "|": 2, "^": 3, "&": 4,
        "==": 5, "!=": 5, "<": 5, ">": 5, "<=": 5, ">=": 5,
        "<<": 6, ">>": 6, "+": 7, "-": 7, "*": 8, "/": 8, "%": 8}
NONASSOC = {5, 6}


def print_expr(e, prec=0):
    """Minimal parentheses according to nmfu's own grammar (not C's)."""
    k = e[0]
    if k == "num":
        s = spell.int_lit(e[1], e[2] if len(e) > 2 else "dec")
        if s[0] in "+-" and prec >= 10:
            return "(" + s + ")"
        return s
    if k == "chr":
        s = spell.char_const(e[1])
        if s is None:
            return str(e[1])
        return s
    if k == "bool":
        return "true" if e[1] else "false"
    if k in ("var", "enum", "arg"):
        return e[1]
    if k == "len":
        return e[1] + ".len"
    if k == "idx":
        return e[1] + "[" + print_expr(e[2], 0) + "]"
    if k == "last":
        return "$last"
    if k == "not":
        s = "!" + print_expr(e[1], 10)
        return "(" + s + ")" if prec >= 10 else s      # a unary operator applies to a math_atom only
    if k == "neg":
        s = "-" + print_expr(e[1], 10)
        return "(" + s + ")" if prec >= 10 else s
    if k == "bin":
        op = e[1]
        p = PREC[op]
        if p in NONASSOC:
            l = print_expr(e[2], p + 1)
            r = print_expr(e[3], p + 1)
        else:
            l = print_expr(e[2], p)
            r = print_expr(e[3], p + 1)
        s = l + " " + op + " " + r
        return "(" + s + ")" if p < prec else s
    raise ValueError(e)


def _paren_if_needed(e, s, prec):
    return s


def print_expr_safe(e, prec=0):
    s = print_expr(e, prec)
    return s


def is_atom_expr(e):
    """Can this expression be written without [...] as an `atom` (assignment right-hand side)?"""
    return e[0] in ("num", "chr", "bool", "enum") or (e[0] == "arg")


def print_rhs(e):
    if is_atom_expr(e):
        return print_expr(e)
    return "[" + print_expr(e) + "]"


def print_match(m):
    k = m[0]
    if k == "lit":
        if m[2] == "bin":
            return spell.binary_lit(m[1])
        return spell.string_lit(m[1], "auto", suffix="i" if m[2] == "casei" else "")
    if k == "re":
        return rx.to_source(m[1], m[2])
    if k == "cat":
        parts = []
        for i, x in enumerate(m[1]):
            t = print_match(x)
            # `"<" b/./` would be read as the binary string "<"b followed by /./ : keep a binary regex away from a preceding literal
            if i > 0 and t.startswith("b/") and parts[-1].endswith('"'):
                t = "(" + t + ")"
            parts.append(t)
        return "(" + " ".join(parts) + ")"
    if k == "end":
        return "end"
    if k == "arg":
        return m[1]
    raise ValueError(m)


def print_body(body, ind):
    return "".join(print_stmt(s, ind) for s in body)


def print_stmt(s, ind=1):
    pad = "    " * ind
    k = s[0]
    if k == "match":
        return pad + print_match(s[1]) + ";\n"
    if k == "append":
        return pad + "%s += %s;\n" % (s[1], print_match(s[2]))
    if k == "appendc":
        return pad + "%s += [%s];\n" % (s[1], print_expr(s[2]))
    if k == "assign":
        return pad + "%s = %s;\n" % (s[1], print_rhs(s[2]))
    if k == "assignstr":
        return pad + "%s = %s;\n" % (s[1], spell.string_lit(s[2], "auto"))
    if k == "delete":
        return pad + "delete %s;\n" % s[1]
    if k == "hook":
        return pad + "%s();\n" % s[1]
    if k == "finish":
        return pad + ("finish %s;\n" % s[1] if s[1] else "finish;\n")
    if k == "yield":
        return pad + "yield %s;\n" % s[1]
    if k == "break":
        return pad + ("break %s;\n" % s[1] if s[1] else "break;\n")
    if k == "wait":
        return pad + "wait %s;\n" % print_match(s[1])
    if k == "loop":
        return pad + "loop %s{\n" % (s[1] + " " if s[1] else "") + print_body(s[2], ind + 1) + pad + "}\n"
    if k == "case":
        out = pad + ("greedy case {\n" if s[1] else "case {\n")
        for pats, prio, body in s[2]:
            ps = ", ".join("else" if p == "else" else print_match(p) for p in pats)
            pre = ("prio %d " % prio) if (prio is not None and s[1]) else ""
            out += pad + "    " + pre + ps + " -> {\n" + print_body(body, ind + 2) + pad + "    }\n"
        return out + pad + "}\n"
    if k == "optional":
        return pad + "optional {\n" + print_body(s[1], ind + 1) + pad + "}\n"
    if k == "try":
        opts = "" if s[1] is None else " (" + ", ".join(s[1]) + ")"
        return (pad + "try {\n" + print_body(s[2], ind + 1) + pad + "}\n" + pad + "catch" + opts + " {\n"
                + print_body(s[3], ind + 1) + pad + "}\n")
    if k == "foreach":
        return (pad + "foreach {\n" + print_body(s[1], ind + 1) + pad + "} do {\n" + print_body(s[2], ind + 1) + pad + "}\n")
    if k == "if":
        out = ""
        for i, (cond, body) in enumerate(s[1]):
            out += pad + ("if " if i == 0 else "elif ") + print_expr(cond) + " {\n" + print_body(body, ind + 1) + pad + "}\n"
        if s[2] is not None:
            out += pad + "else {\n" + print_body(s[2], ind + 1) + pad + "}\n"
        return out
    if k == "call":
        return pad + "%s(%s);\n" % (s[1], ", ".join(print_arg(a) for a in s[2]))
    raise ValueError(s)


def print_arg(a):
    """a: ('m', Match) | ('e', Expr) | ('id', name)"""
    if a[0] == "m":
        return print_match(a[1])
    if a[0] == "e":
        return print_rhs(a[1])
    return a[1]


def print_out(o):
    k = o[0]
    if k == "int":
        attrs = []
        if o[2] is not None:
            attrs.append("signed" if o[2] else "unsigned")
        if o[3] is not None:
            attrs.append("size %d" % o[3])
        t = "int" + ("{" + ", ".join(attrs) + "}" if attrs else "")
        d = "" if o[4] is None else " = " + spell.int_lit(o[4])
        return "out %s %s%s;\n" % (t, o[1], d)
    if k == "bool":
        d = "" if o[2] is None else " = " + ("true" if o[2] else "false")
        return "out bool %s%s;\n" % (o[1], d)
    if k == "enum":
        d = "" if o[3] is None else " = " + o[3]
        return "out enum{%s} %s%s;\n" % (",".join(o[2]), o[1], d)
    if k == "str":
        d = ""
        if o[4] is not None:
            d = " = " + (spell.binary_lit(o[4]) if o[5] else spell.string_lit(o[4], "auto"))
        return "out %sstr[%d] %s%s;\n" % ("" if o[3] else "unterminated ", o[2], o[1], d)
    if k == "raw":
        return "out raw{%s} %s;\n" % (o[2], o[1])
    raise ValueError(o)


def normalise_out(o):
    """('str', name, size, term, default, isbin) is stored as ('str', name, None, size, term, default, isbin) internally? no: keep flat."""
    return o


def print_program(p):
    s = ""
    for o in p.outs:
        s += print_out(o)
    for h in p.hooks:
        s += "hook %s;\n" % h
    if p.fcodes:
        s += "finishcode %s;\n" % ", ".join(p.fcodes)
    if p.ycodes:
        s += "yieldcode %s;\n" % ", ".join(p.ycodes)
    for name, params, body in p.macros:
        s += "macro %s(%s) {\n%s}\n" % (name, ", ".join("%s %s" % (k, n) for k, n in params), print_body(body, 1))
    s += "parser {\n" + print_body(p.body, 1) + "}\n"
    return s


# ------------------------------------------------------------------------------------------------ analysis

def match_core(m):
    """Core regex over bytes for a data match (END excluded), or None if it involves `end` / args."""
    k = m[0]
    if k == "lit":
        return rx.literal_core(m[1], m[2] == "casei")
    if k == "re":
        return rx.to_core(m[1])
    if k == "cat":
        out = rx.EPS
        for x in reversed(m[1]):
            c = match_core(x)
            if c is None:
                return None
            out = rx.seq(c, out)
        return out
    return None


class Summary:
    """first: symbols (bytes, END=256) that may begin the construct when it consumes; nullable: may complete
    without consuming; tail: symbols on which the construct, although it may be complete, would continue."""
    __slots__ = ("first", "nullable", "tail")

    def __init__(self, first=frozenset(), nullable=True, tail=frozenset()):
        self.first = frozenset(first)
        self.nullable = nullable
        self.tail = frozenset(tail)


_ms_cache = {}


def match_summary(m):
    v = _ms_cache.get(m)
    if v is not None:
        return v
    k = m[0]
    if k == "end":
        v = Summary({END}, False, ())
    elif k == "cat" and any(x[0] == "end" for x in m[1]):
        v = seq_summaries([match_summary(x) for x in m[1]])[0]
    elif k == "arg":
        v = Summary(range(256), False, ())
    else:
        core = match_core(m)
        a = rx.Auto(core)
        v = Summary(rx.first(core), rx.nullable(core), a.cont_symbols())
    if len(_ms_cache) > 20000:
        _ms_cache.clear()
    _ms_cache[m] = v
    return v


def seq_summaries(summaries):
    """Fold a sequence; returns (Summary, conflicts) where conflicts lists (index, symbols) lookahead clashes."""
    first = set()
    nullable = True
    tail = set()
    conflicts = []
    for i, s in enumerate(summaries):
        clash = tail & s.first
        if clash:
            conflicts.append((i, frozenset(clash)))
        if nullable:
            first |= s.first
        if s.nullable:
            tail = tail | s.tail
        else:
            tail = set(s.tail)
        nullable = nullable and s.nullable
    return Summary(first, nullable, tail), conflicts


ACTION_KINDS = ("appendc", "assign", "assignstr", "delete", "hook", "finish", "yield", "break")


def is_action(s):
    return s[0] in ACTION_KINDS or (s[0] == "if" and all(all(is_action(x) for x in b) for _, b in s[1]) and
                                    (s[2] is None or all(is_action(x) for x in s[2])))


def stmt_summary(s, problems):
    k = s[0]
    if k in ("match", "append", "wait"):
        m = s[1] if k != "append" else s[2]
        ms = match_summary(m)
        return ms
    if is_action(s):
        return Summary((), True, ())
    if k == "loop":
        b = body_summary(s[2], problems)
        if b.nullable:
            problems.append("loop body nullable")
        if b.tail & b.first:
            problems.append("loop repeat ambiguous")
        return Summary(b.first, False, ())
    if k == "optional":
        b = body_summary(s[1], problems)
        if b.nullable:
            problems.append("optional body nullable")
        return Summary(b.first, True, b.tail | b.first)
    if k == "case":
        first = set()
        tail = set()
        nullable = False
        for pats, prio, body in s[2]:
            bs = body_summary(body, problems)
            for p in pats:
                if p == "else":
                    nullable = nullable or bs.nullable
                    tail |= bs.tail
                    first |= set(range(256))
                    continue
                ps = match_summary(p)
                first |= ps.first
                comb, conf = seq_summaries([ps, bs])
                if conf:
                    problems.append("clause pattern/body clash")
                tail |= comb.tail
                if ps.nullable:
                    problems.append("nullable clause pattern")
        return Summary(first, nullable, tail)
    if k == "try":
        b = body_summary(s[2], problems)
        h = body_summary(s[3], problems)
        return Summary(b.first, b.nullable, b.tail | h.tail)
    if k == "foreach":
        return body_summary(s[1], problems)
    if k == "if":
        first = set()
        tail = set()
        nullable = s[2] is None
        for _, body in list(s[1]) + ([(None, s[2])] if s[2] is not None else []):
            bs = body_summary(body, problems)
            first |= bs.first
            tail |= bs.tail
            nullable = nullable or bs.nullable
        return Summary(first, nullable, tail)
    if k == "call":
        return Summary(range(256), False, ())
    raise ValueError(s)


def body_summary(body, problems):
    sums = [stmt_summary(s, problems) for s in body]
    out, conflicts = seq_summaries(sums)
    for i, sym in conflicts:
        problems.append("lookahead clash before statement %d" % i)
    # nullable construct followed by a construct starting with the same symbols
    for i in range(len(body) - 1):
        if sums[i].nullable and sums[i].first:
            j = i + 1
            while j < len(body):
                if sums[i].first & sums[j].first:
                    problems.append("nullable statement shares first symbols with follower")
                if not sums[j].nullable:
                    break
                j += 1
    return out


def analyse(body):
    problems = []
    s = body_summary(body, problems)
    return s, problems


def prefix_conflict(c1, c2):
    """True iff some word of L(c1) is a prefix of (or equal to) some word of L(c2), or vice versa."""
    sets = rx.charsets_of(c1) | rx.charsets_of(c2)
    classes = [min(c) for c in rx.byte_classes(sets)]
    seen = set()
    work = [(c1, c2)]
    while work:
        a, b = work.pop()
        if (a, b) in seen:
            continue
        seen.add((a, b))
        if rx.nullable(a) or rx.nullable(b):
            return True
        for c in classes:
            na, nb = rx.deriv(a, c), rx.deriv(b, c)
            if na != rx.EMPTY and nb != rx.EMPTY:
                work.append((na, nb))
    return False


def walk(body, fn):
    """Pre-order visit of every statement."""
    for s in body:
        fn(s)
        k = s[0]
        if k == "loop":
            walk(s[2], fn)
        elif k == "optional":
            walk(s[1], fn)
        elif k == "case":
            for _, _, b in s[2]:
                walk(b, fn)
        elif k == "try":
            walk(s[2], fn)
            walk(s[3], fn)
        elif k == "foreach":
            walk(s[1], fn)
            walk(s[2], fn)
        elif k == "if":
            for _, b in s[1]:
                walk(b, fn)
            if s[2] is not None:
                walk(s[2], fn)


def kinds(body):
    out = set()
    walk(body, lambda s: out.add(s[0]))
    return out


def depth(body):
    d = 0
    for s in body:
        k = s[0]
        subs = []
        if k == "loop":
            subs = [s[2]]
        elif k == "optional":
            subs = [s[1]]
        elif k == "case":
            subs = [b for _, _, b in s[2]]
        elif k == "try":
            subs = [s[2], s[3]]
        elif k == "foreach":
            subs = [s[1]]
        elif k == "if":
            subs = [b for _, b in s[1]] + ([s[2]] if s[2] is not None else [])
        for b in subs:
            d = max(d, 1 + depth(b))
    return d


def byte_alphabet(p, extra=()):
    """Byte classes of a program computed from the IR only (DESIGN 2.7): returns list of frozensets."""
    sets = set()

    def on_match(m):
        k = m[0]
        if k == "lit":
            for b in m[1]:
                sets.add(frozenset([b]))
                if m[2] == "casei" and chr(b).isalpha() and b < 128:
                    sets.add(frozenset([b ^ 0x20]))
        elif k == "re":
            sets.update(rx.charsets_of(rx.to_core(m[1])))
        elif k == "cat":
            for x in m[1]:
                on_match(x)

    def on_stmt(s):
        k = s[0]
        if k in ("match", "wait"):
            on_match(s[1])
        elif k == "append":
            on_match(s[2])
        elif k == "case":
            for pats, _, _ in s[2]:
                for pt in pats:
                    if pt != "else":
                        on_match(pt)
    walk(p.body, on_stmt)
    for name, params, body in p.macros:
        walk(body, on_stmt)
    for e in extra:
        sets.add(frozenset([e]))
    return rx.byte_classes(sets)
