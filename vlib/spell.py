"""
Spelling of byte strings and numbers as nmfu source tokens, by explicit policy.
Everything here is the *inverse* of my reading of the documented literal syntax: the byte string is
the ground truth, the spelling is derived from it.
"""

NAMED = {0x0a: "n", 0x0d: "r", 0x09: "t", 0x08: "b", 0x00: "0", 0x22: '"', 0x5c: "\\"}
HEXD = "0123456789abcdef"


def can_raw_string(b):
    # printable ASCII except the two characters that need escaping
    return 0x20 <= b <= 0x7e and b not in (0x22, 0x5c)


def string_byte(b, style, upper=False):
    """style: 'raw' | 'hex' | 'named' ; falls back to hex when the style does not apply"""
    if style == "raw" and can_raw_string(b):
        return chr(b)
    if style == "named" and b in NAMED:
        return "\\" + NAMED[b]
    h = "%02x" % b
    return "\\x" + (h.upper() if upper else h)


def string_lit(bs, styles=None, upper=None, suffix=""):
    """Spell bytes as a "..." literal. styles: per-byte list or single style."""
    out = ['"']
    for i, b in enumerate(bs):
        st = styles[i] if isinstance(styles, (list, tuple)) else (styles or "auto")
        if st == "auto":
            st = "raw" if can_raw_string(b) else ("named" if b in NAMED else "hex")
        up = upper[i] if isinstance(upper, (list, tuple)) else bool(upper)
        out.append(string_byte(b, st, up))
    out.append('"' + suffix)
    return "".join(out)


def binary_lit(bs, seps=None, upper=None):
    """Spell bytes as a "HH HH"b literal; seps: per-gap separator strings ('' or ' ' ...)"""
    parts = []
    for i, b in enumerate(bs):
        h = "%02x" % b
        up = upper[i] if isinstance(upper, (list, tuple)) else bool(upper)
        parts.append(h.upper() if up else h)
        if i + 1 < len(bs):
            parts.append(seps[i] if isinstance(seps, (list, tuple)) else (" " if seps is None else seps))
    return '"' + "".join(parts) + '"b'


# ---- regex -------------------------------------------------------------------------------------
REGEX_META = set(b".*()[]\\+{}|/")   # escapable with a backslash (REGEX_UNIMPORTANT); '?' has no escaped form
SET_META = set(b"-]\\/")


def can_raw_regex(b):
    # whitespace must be escaped ("the space character must be escaped"); raw only for visible ASCII
    return 0x21 <= b <= 0x7e and b not in REGEX_META and b != ord("?")


def regex_char(b, escape_meta=True):
    """Spell one byte as a text-regex literal element, or None if the dialect cannot spell it."""
    if b in REGEX_META:
        return "\\" + chr(b)
    if b == ord("?"):
        return None     # the dialect cannot spell a literal '?' outside a set
    if can_raw_regex(b):
        return chr(b)
    if b == 0x20:
        return "\\ "
    if b == 0x0a:
        return "\\n"
    if b == 0x09:
        return "\\t"
    if b == 0x0d:
        return "\\r"
    return None


def regex_set_char(b):
    """Spell one byte as a member of a [...] set in a text regex, or None."""
    if b in SET_META:
        return "\\" + chr(b)
    if 0x21 <= b <= 0x7e and b != ord("^"):
        return chr(b)
    if b == ord("^"):
        return "^"   # only safe when not first; callers must not put it first
    return None


def char_const(b):
    """Spell a byte as a 'c' constant or None"""
    if b == 0x27:
        return "'\\''"
    if b == 0x5c:
        return "'\\\\'"
    if b == 0x0a:
        return "'\\n'"
    if b == 0x0d:
        return "'\\r'"
    if b == 0x09:
        return "'\\t'"
    if b == 0x08:
        return "'\\b'"
    if b == 0x00:
        return "'\\0'"
    if 0x20 <= b <= 0x7e:
        return "'" + chr(b) + "'"
    return None


def int_lit(v, radix="dec", plus=False, upper=False, pad=0):
    """Spell an integer literal as RADIX_NUMBER. Binary literals cannot carry a sign in the grammar."""
    neg = v < 0
    a = -v if neg else v
    if radix == "hex":
        d = "%x" % a
        if upper:
            d = d.upper()
        body = "0x" + "0" * pad + d
    elif radix == "bin":
        if neg:
            raise ValueError("binary literals are unsigned")
        return "0b" + "0" * pad + bin(a)[2:]
    else:
        body = "0" * 0 + str(a)
    return ("-" if neg else ("+" if plus else "")) + body
