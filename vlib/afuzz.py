"""
Coverage-guided tier for C18 (atheris / libFuzzer driving the Hypothesis source generators through fuzz_one_input).

Run as a child process:  python -m vlib.afuzz <which> <seed> <seconds> <outdir> <shard>
  which  : wild | mutated | typed      (the strategies of checks/c18.py)
  outdir : directory for this shard's result files (written incrementally: libFuzzer leaves through _exit, atexit does not run)

nmfu is imported under atheris' bytecode instrumentation, so libFuzzer sees edge coverage of the compiler and keeps the byte
strings (= Hypothesis choice sequences) that reach new code.  The oracle is the one of the Hypothesis tier: outcome in {accepted,
diagnosed}; every other exception is recorded in a bucket file (exception type + innermost nmfu frame) and the search goes on -
the target function never raises, so one shallow crash does not end the campaign.
"""
import json
import os
import signal
import sys
import time


def main():
    which, seed, seconds, outdir, shard_no = sys.argv[1], int(sys.argv[2]), int(sys.argv[3]), sys.argv[4], int(sys.argv[5])
    os.makedirs(outdir, exist_ok=True)
    corpus = os.path.join(outdir, "corpus%d" % shard_no)
    os.makedirs(corpus, exist_ok=True)
    import atheris
    with atheris.instrument_imports(include=["nmfu"], enable_loader_override=False):
        import nmfu  # noqa: F401
    import hypothesis
    from hypothesis import given, settings, HealthCheck
    from checks import c18
    from vlib import front
    from vlib.common import Shard

    shard = Shard()
    buckets = {}
    state = {"n": 0, "last_dump": time.time(), "handler": False}
    t_end = time.time() + seconds

    class Hang(Exception):
        pass

    def on_alarm(signum, frame):
        raise Hang()

    def dump():
        with open(os.path.join(outdir, "shard%d.json.tmp" % shard_no), "w") as fh:
            json.dump({"which": which, "counters": dict(shard.counters), "nontrivial": sorted(shard.nontrivial), "buckets": buckets,
                       "samples": shard.samples, "corpus_files": len(os.listdir(corpus))}, fh)
        os.replace(os.path.join(outdir, "shard%d.json.tmp" % shard_no), os.path.join(outdir, "shard%d.json" % shard_no))
        state["last_dump"] = time.time()

    def examine(src, argv):
        if not state["handler"]:
            signal.signal(signal.SIGALRM, on_alarm)
            state["handler"] = True
        signal.alarm(20)
        try:
            out = front.compile_src(src, argv)
        except Hang:
            out = front.Outcome("crash", stage="hang", exc=Hang(), msg="no result within 20 s", where="(timeout)")
        finally:
            signal.alarm(0)
        shard.event("evaluations")
        shard.event("outcome:" + out.kind + ("" if out.kind != "diagnosed" else ":" + out.stage))
        if out.kind == "diagnosed":
            shard.nontriv(repr((out.stage, type(out.exc).__name__, out.msg.split("\n")[0][:40])))
        elif out.kind in ("crash", "exit"):
            b = ("c18:crash:%s:%s" % (type(out.exc).__name__, out.where)) if out.kind == "crash" else "c18:exit"
            cur = buckets.get(b)
            if cur is None or len(src) < len(cur["source"]):
                buckets[b] = {"source": src, "argv": argv, "msg": str(out.msg)[:300]}
                dump()
        if len(shard.samples) < 3 and len(src) < 300 and out.kind != "accepted":
            shard.sample({"source": src, "argv": argv, "outcome": out.kind})

    strat = {"wild": c18.wild_source, "mutated": c18.mutated_typed_source, "typed": c18.typed_source, "sched": c18.sched_source, "oddexpr": c18.odd_expr_source}[which]()

    @settings(database=None, deadline=None, suppress_health_check=list(HealthCheck), verbosity=hypothesis.Verbosity.quiet)
    @given(strat)
    def test(val):
        src, argv = val
        examine(src, argv)

    fuzz_one = test.hypothesis.fuzz_one_input

    def target(data):
        state["n"] += 1
        try:
            try:
                fuzz_one(data)
            except Exception as e:      # the generator itself failing is a harness problem, recorded and not hidden
                import traceback
                shard.event("harness_exception:" + type(e).__name__)
                buckets.setdefault("harness:" + type(e).__name__, {"source": "", "argv": [], "msg": traceback.format_exc()[-600:]})
            shard.event("fuzz_inputs")
            if time.time() - state["last_dump"] > 5:
                dump()
        except BaseException as e:      # anything else (SystemExit, KeyboardInterrupt, a late alarm): record, never let atheris exit on it
            import traceback
            signal.alarm(0)
            buckets.setdefault("harness:" + type(e).__name__, {"source": "", "argv": [], "msg": traceback.format_exc()[-600:]})
        if time.time() > t_end:
            signal.alarm(0)
            dump()
            os._exit(0)

    atheris.Setup([sys.argv[0], "-seed=%d" % (seed % 2147483647 or 1), "-max_total_time=%d" % (seconds + 30), "-timeout=0", "-rss_limit_mb=6000",
                   "-max_len=4096", "-artifact_prefix=%s/" % outdir, "-print_final_stats=0", "-verbosity=0", corpus], target)
    dump()
    atheris.Fuzz()


if __name__ == "__main__":
    main()
