"""
Evaluation of IR expressions (vlib/ir.py Expr tuples) with C semantics (vlib/carith.py) and the C types nmfu
assigns to each atom.  Independent of nmfu's own expression classes (used by C14 and by the reference interpreter).
"""
from . import carith
from .carith import Undefined


class Env:
    """
    ints:  name -> (ctype, value)          bools: name -> 0/1          enums: name -> (values tuple, index)
    bufs:  name -> dict(kind='str'|'raw', size=int, term=bool, data=bytes)
    last:  int or None                     unsafe: unsafe string indexing
    """

    def __init__(self, ints=None, bools=None, bufs=None, last=None, unsafe=False, enums=None):
        self.ints = ints or {}
        self.bools = bools or {}
        self.bufs = bufs or {}
        self.enums = enums or {}
        self.last = last
        self.unsafe = unsafe


def counter_type(buf):
    if buf["kind"] == "str":
        return carith.counter_type(buf["size"])
    return carith.counter_type(buf.get("rawmax"))


def ev(e, env):
    k = e[0]
    if k == "num":
        return carith.lit(e[1])
    if k == "chr":
        return carith.lit(e[1])
    if k == "bool":
        return (carith.INT, 1 if e[1] else 0)
    if k == "var":
        n = e[1]
        if n in env.ints:
            return env.ints[n]
        if n in env.bools:
            return (carith.BOOL, env.bools[n])
        if n in env.enums:
            return (carith.UINT, env.enums[n][1])
        raise KeyError(n)
    if k == "enum":
        raise Undefined("enum constant outside assignment")
    if k == "len":
        b = env.bufs[e[1]]
        return (counter_type(b), len(b["data"]))
    if k == "idx":
        b = env.bufs[e[1]]
        idx = ev(e[2], env)
        size = b["size"]
        if not env.unsafe:
            inside = carith.truth(carith.cmp(">=", idx, carith.lit(0))) and carith.truth(carith.cmp("<", idx, carith.lit(size)))
            if not inside:
                return (carith.INT, 0)
        i = idx[1]
        if i < 0 or i >= size:
            raise Undefined("unsafe index out of range")
        data = b["data"]
        if i < len(data):
            return (carith.INT, data[i])
        if env.unsafe:
            raise Undefined("unsafe index beyond stored length")
        if i == len(data) and b["kind"] == "str" and b["term"]:
            return (carith.INT, 0)
        raise Undefined("read beyond stored length")
    if k == "last":
        if env.last is None:
            raise Undefined("$last not defined here")
        return (carith.U8, env.last)
    if k == "neg":
        return carith.sub((carith.INT, 0), ev(e[1], env))
    if k == "not":
        return carith.cmp("==", ev(e[1], env), (carith.INT, 0))
    if k == "bin":
        op = e[1]
        if op == "&&":
            if not carith.truth(ev(e[2], env)):
                return (carith.INT, 0)
            return (carith.INT, 1 if carith.truth(ev(e[3], env)) else 0)
        if op == "||":
            if carith.truth(ev(e[2], env)):
                return (carith.INT, 1)
            return (carith.INT, 1 if carith.truth(ev(e[3], env)) else 0)
        l = ev(e[2], env)
        r = ev(e[3], env)
        if op == "+":
            return carith.add(l, r)
        if op == "-":
            return carith.sub(l, r)
        if op == "*":
            return carith.mul(l, r)
        if op == "/":
            return carith.div(l, r)
        if op == "%":
            return carith.mod(l, r)
        if op in ("&", "|", "^"):
            return carith.bitop(op, l, r)
        if op == "<<":
            return carith.shl(l, r)
        if op == ">>":
            return carith.shr(l, r)
        if op in ("==", "!=", "<", ">", "<=", ">="):
            return carith.cmp(op, l, r)
    raise ValueError(e)


def ops_of(e, acc=None):
    if acc is None:
        acc = []
    if e[0] == "bin":
        acc.append(e[1])
        ops_of(e[2], acc)
        ops_of(e[3], acc)
    elif e[0] in ("not", "neg"):
        acc.append(e[0])
        ops_of(e[1], acc)
    elif e[0] == "idx":
        ops_of(e[2], acc)
    return acc
