"""./check <ID> <quick|thorough> [--replay file]"""
import importlib
import json
import os
import sys
import traceback

from . import common


def main(argv):
    if len(argv) < 1:
        print(__doc__, file=sys.stderr)
        return 2
    prop = argv[0].upper()
    tier = os.environ.get("VERIF_TIER") or "quick"
    replay = None
    rest = argv[1:]
    while rest:
        a = rest.pop(0)
        if a in ("quick", "thorough"):
            tier = a
        elif a == "--replay":
            replay = rest.pop(0)
        else:
            print("unknown argument " + a, file=sys.stderr)
            return 2
    try:
        seed = int(os.environ.get("VERIF_SEED", "1"))
    except ValueError:
        seed = 1
    sys.setrecursionlimit(10000)
    try:
        mod = importlib.import_module("checks." + prop.lower())
    except ImportError:
        traceback.print_exc()
        return 2
    ctx = common.Ctx(prop, tier, seed)
    try:
        if replay is not None:
            with open(replay) as fh:
                data = json.load(fh)
            return mod.replay(ctx, data)
        mod.main(ctx)
        return ctx.finish()
    except common.HarnessError as e:
        print("HARNESS-ERROR: " + str(e), file=sys.stderr)
        return 2
    except Exception:
        traceback.print_exc()
        print("HARNESS-ERROR: check crashed", file=sys.stderr)
        return 2


if __name__ == "__main__":
    sys.exit(main(sys.argv[1:]))
