"""
GEN: Hypothesis strategies that build IR programs by construction (DESIGN.md section 2.2).

The central entry point is `program(cfg)`.  A running First/Tail summary (ir.Summary) is folded over every
statement list while it is being generated; where the next statement would clash with the lookahead of what
precedes it, a closed separator literal is inserted (with probability cfg.valid_bias) so that most programs are
accepted; the rest deliberately keeps the clash (they feed C09 / C18).
"""
from hypothesis import strategies as st

from . import ir, rx

ALPHA = list(b"abc")
DIGITS = list(b"019")
SEPS = list(b";,:#|=!")
SHARP = [0x00, 0x0a, 0x20, 0x22, 0x5c, 0x2f, 0x2d, 0x5d, 0x7f, 0x80, 0xff, 0x41, 0x61, 0x5a, 0x7a]


class GenConfig:
    def __init__(self, **kw):
        self.max_depth = 2
        self.max_stmts = 5
        self.valid_bias = 0.9
        self.kinds = {"match": 6, "append": 3, "appendc": 1, "assign": 3, "assignstr": 1, "delete": 1, "hook": 2,
                      "finish": 1, "yield": 0, "wait": 1, "loop": 2, "case": 3, "optional": 2, "try": 2, "foreach": 1,
                      "if": 2, "ifact": 1}
        self.regex_weight = 4       # out of 10 matches
        self.allow_end = False
        self.allow_yield = False
        self.allow_last = False     # $last in expressions (only in guaranteed contexts)
        self.allow_greedy = True
        self.str_sizes = [1, 2, 3, 4, 8]
        self.int_kinds = [(True, None), (False, 1), (True, 1), (False, 2), (True, 2), (False, 4), (True, 4), (False, 8), (True, 8)]
        self.n_ints = (0, 2)
        self.n_bools = (0, 1)
        self.n_strs = (0, 2)
        self.n_enums = (0, 1)
        self.n_raws = (0, 0)
        self.raw_types = ["uint8_t", "uint16_t", "uint32_t", "uint64_t", "int32_t", "double"]
        self.n_hooks = (0, 2)
        self.n_fcodes = (0, 2)
        self.n_ycodes = (1, 2)
        self.flags = None           # strategy for argv or None -> default policy
        self.wide_bytes = 0.1       # probability that a drawn byte comes from the full 0..255 range
        self.defaults_always = True
        self.simple_exprs = True
        self.tame_conditions = False   # comparisons only between a variable-like atom and a constant (no compiler-warned tautologies)
        self.const_conditions = 0      # n in 10 conditions are comparisons of a constant expression (division / remainder / shifts of signed constants)
        for k, v in kw.items():
            if k == "kinds":
                self.kinds = dict(self.kinds)
                self.kinds.update(v)
            else:
                if not hasattr(self, k):
                    raise AttributeError(k)
                setattr(self, k, v)


# ------------------------------------------------------------------------------------------------ bytes / matches

def byte_st(cfg):
    return st.one_of(st.sampled_from(ALPHA), st.sampled_from(ALPHA), st.sampled_from(DIGITS + SHARP),
                     st.integers(0, 255) if cfg.wide_bytes > 0 else st.sampled_from(ALPHA))


@st.composite
def literal(draw, cfg, min_size=1, max_size=3):
    bs = bytes(draw(st.lists(byte_st(cfg), min_size=min_size, max_size=max_size)))
    mode = draw(st.sampled_from(["str", "str", "str", "casei", "bin"]))
    return ("lit", bs, mode)


def _spellable_text(b):
    from . import spell
    return spell.regex_char(b) is not None


@st.composite
def charset(draw, cfg, binary):
    """A surface set / class / any / literal leaf."""
    kind = draw(st.sampled_from(["lit", "lit", "lit", "set", "set", "iset", "any", "cls"]))
    if kind == "lit":
        b = draw(byte_st(cfg))
        if not binary and not _spellable_text(b):
            b = draw(st.sampled_from(ALPHA))
        return ("lit", b)
    if kind == "any":
        return ("any",)
    if kind == "cls":
        if binary:
            return ("lit", draw(st.sampled_from(ALPHA)))
        return ("cls", draw(st.sampled_from("wWdDsSntr ")))
    if binary and kind == "set" and draw(st.integers(0, 5)) == 0:
        # every byte value spelled out (not the same thing as `.` for the code generator: 256 explicit values, no Else)
        return ("set", (("r", 0x00, 0xff),), False)
    items = []
    for _ in range(draw(st.integers(1, 3))):
        ik = draw(st.sampled_from(["c", "c", "r", "k"]))
        if ik == "k" and not binary:
            items.append(("k", draw(st.sampled_from("wdsWDSntr"))))
        elif ik == "r":
            if binary:
                lo = draw(st.sampled_from([0x00, 0x10, 0x30, 0x41, 0x61, 0x7f, 0x80, 0xf0]))
                hi = min(255, lo + draw(st.sampled_from([0, 1, 5, 15, 0x7f])))
            else:
                lo = draw(st.sampled_from([0x30, 0x41, 0x61, 0x62]))
                hi = min(0x7a, lo + draw(st.sampled_from([0, 1, 2, 9, 25])))
            items.append(("r", lo, hi))
        else:
            b = draw(byte_st(cfg))
            from . import spell
            if not binary and (spell.regex_set_char(b) is None or b == ord("^")):
                b = draw(st.sampled_from(ALPHA + DIGITS))
            items.append(("c", b))
    return ("set", tuple(items), kind == "iset")


@st.composite
def regex(draw, cfg, binary=False, depth=2, closed=None):
    """Surface regex. closed=True asks for a regex whose matches end deterministically (no open tail)."""
    def leaf():
        return draw(charset(cfg, binary))

    def node(d):
        if d <= 0:
            return leaf()
        k = draw(st.sampled_from(["leaf", "leaf", "seq", "seq", "alt", "op", "op", "rep"]))
        if k == "leaf":
            return leaf()
        if k == "seq":
            return ("seq", tuple(node(d - 1) for _ in range(draw(st.integers(2, 3)))))
        if k == "alt":
            return ("alt", tuple(node(d - 1) for _ in range(draw(st.integers(2, 3)))))
        if k == "op":
            return ("op", node(d - 1), draw(st.sampled_from("*+?")))
        n = draw(st.sampled_from([0, 1, 2, 3]))
        m = draw(st.sampled_from([None, "inf", n, n + 1, n + 2]))
        if m is not None and m != "inf" and m == n:
            m = None
        if n == 0 and m is None:
            n = 1
        return ("rep", node(d - 1), n, m)
    r = node(depth)
    core = rx.to_core(r)
    if core == rx.EMPTY:
        # a pattern nothing can match (e.g. [^\\w\\W]): when such a statement fails is not defined by the reference
        return ("lit", draw(st.sampled_from(ALPHA)))
    if core == rx.EPS or rx.nullable(core):
        # keep statement-level regexes non-nullable: prefix a literal
        r = ("seq", (("lit", draw(st.sampled_from(ALPHA))), r))
    if closed:
        a = rx.Auto(rx.to_core(r))
        if a.cont_symbols():
            # close it with a terminator byte that cannot continue it
            cont = a.cont_symbols()
            cands = [b for b in SEPS + ALPHA + DIGITS if b not in cont]
            if not cands:
                return ("lit", draw(st.sampled_from(ALPHA)))
            r = ("seq", (r, ("lit", draw(st.sampled_from(cands)))))
    return r


@st.composite
def match(draw, cfg, closed=None, allow_cat=True):
    k = draw(st.integers(0, 9))
    if k < cfg.regex_weight:
        binary = draw(st.integers(0, 4)) == 0
        try:
            r = draw(regex(cfg, binary, depth=draw(st.integers(0, 2)), closed=closed))
            rx.to_source(r, binary)
        except rx.Unspellable:
            return draw(literal(cfg))
        return ("re", r, binary)
    if k == 9 and allow_cat:
        parts = tuple(draw(match(cfg, closed=True, allow_cat=False)) for _ in range(draw(st.integers(2, 3))))
        return ("cat", parts)
    return draw(literal(cfg))


# ------------------------------------------------------------------------------------------------ expressions

class Env:
    """What a statement generator may refer to."""

    def __init__(self, prog, cfg):
        self.prog = prog
        self.cfg = cfg
        self.ints = [o for o in prog.outs if o[0] == "int"]
        self.bools = [o for o in prog.outs if o[0] == "bool"]
        self.enums = [o for o in prog.outs if o[0] == "enum"]
        self.strs = [o for o in prog.outs if o[0] == "str"]
        self.raws = [o for o in prog.outs if o[0] == "raw"]
        self.bufs = self.strs + self.raws
        self.loops = []        # names (or None) of enclosing loops, innermost last
        self.loop_counter = 0
        self.in_foreach_actions = False
        self.last_ok = False   # $last is in a guaranteed context right now


@st.composite
def int_expr(draw, env, depth=2, last_ok=False):
    cfg = env.cfg
    if depth <= 0 or draw(st.integers(0, 3)) == 0:
        opts = ["num", "num", "chr"]
        if env.ints:
            opts += ["var", "var"]
        if env.bufs:
            opts += ["len"]
            opts += ["idx"]
        if last_ok:
            opts += ["last", "last"]
        k = draw(st.sampled_from(opts))
        if k == "num":
            return ("num", draw(st.sampled_from([0, 1, 2, 3, 7, 10, 48, 100, 255])), draw(st.sampled_from(["dec", "dec", "hex", "bin"])))
        if k == "chr":
            return ("chr", draw(st.sampled_from([0x30, 0x61, 0x41, 0x20, 0x0a])))
        if k == "var":
            return ("var", draw(st.sampled_from(env.ints))[1])
        if k == "len":
            return ("len", draw(st.sampled_from(env.bufs))[1])
        if k == "idx":
            o = draw(st.sampled_from(env.bufs))
            size = o[2] if o[0] == "str" else {"uint8_t": 1, "uint16_t": 2}.get(o[2], 4)
            return ("idx", o[1], ("num", draw(st.integers(0, min(2, size - 1))), "dec"))
        return ("last",)
    op = draw(st.sampled_from(["+", "+", "-", "*", "&", "|", "^", "%", "/", "<<", ">>"]))
    l = draw(int_expr(env, depth - 1, last_ok))
    if op in ("%", "/"):
        r = ("num", draw(st.sampled_from([1, 2, 3, 7, 10])), "dec")
    elif op in ("<<", ">>"):
        r = ("num", draw(st.sampled_from([0, 1, 2, 4])), "dec")
    else:
        r = draw(int_expr(env, depth - 1, last_ok))
    return ("bin", op, l, r)


@st.composite
def bool_expr(draw, env, depth=2, last_ok=False):
    if depth <= 0:
        k = "cmp"
    elif env.cfg.tame_conditions:
        k = draw(st.sampled_from(["cmp", "cmp", "not", "boolvar"]))
    else:
        k = draw(st.sampled_from(["cmp", "cmp", "cmp", "and", "or", "not", "boolvar"]))
    if k == "boolvar" and not env.bools:
        k = "cmp"
    if k == "cmp":
        op = draw(st.sampled_from(["==", "!=", "<", ">", "<=", ">="]))
        if env.cfg.tame_conditions:
            cands = [("var", o[1]) for o in env.ints] + [("len", o[1]) for o in env.bufs] + [("idx", o[1], ("num", 0, "dec")) for o in env.bufs]
            if last_ok:
                cands.append(("last",))
            if not cands:
                return ("bool", draw(st.booleans()))
            return ("bin", op, draw(st.sampled_from(cands)), ("num", draw(st.sampled_from([1, 2, 3, 7, 48, 100])), "dec"))
        return ("bin", op, draw(int_expr(env, 1, last_ok)), draw(int_expr(env, 0, last_ok)))
    if k == "boolvar":
        return ("var", draw(st.sampled_from(env.bools))[1])
    if k == "not":
        return ("not", draw(bool_expr(env, depth - 1, last_ok)))
    return ("bin", "&&" if k == "and" else "||", draw(bool_expr(env, depth - 1, last_ok)), draw(bool_expr(env, depth - 1, last_ok)))


@st.composite
def condition(draw, env, last_ok=False):
    if env.cfg.const_conditions and draw(st.integers(0, 9)) < env.cfg.const_conditions:
        # decided at compile time if the compiler folds it: the folded value must be C's (truncating division, sign of the dividend)
        a = draw(st.sampled_from([-7, -1, -7, -9, 9, 7, -100]))
        b = draw(st.sampled_from([2, 3, -2, 4, -4, 2]))
        op2 = draw(st.sampled_from(["/", "/", "%", "%", "/", "%", "*", "-"]))
        if op2 in ("/", "%"):
            q = abs(a) // abs(b) * (1 if (a < 0) == (b < 0) else -1)      # C: truncation towards zero, remainder has the sign of the dividend
            cval = q if op2 == "/" else a - q * b
        else:
            cval = a * b if op2 == "*" else a - b
        v = cval if draw(st.integers(0, 3)) > 0 else draw(st.sampled_from([-4, -3, -2, -1, 0, 1, 2, 3]))
        return ("bin", draw(st.sampled_from(["==", "!=", "<", ">=", "==", "=="])), ("bin", op2, ("num", a, "dec"), ("num", b, "dec")), ("num", v, "dec"))
    if draw(st.integers(0, 4)) == 0 and env.ints:
        return ("var", draw(st.sampled_from(env.ints))[1])      # integer used as condition
    return draw(bool_expr(env, draw(st.integers(0, 1)), last_ok))


# ------------------------------------------------------------------------------------------------ statements

def _weighted(draw, weights):
    items = [(k, w) for k, w in sorted(weights.items()) if w > 0]
    total = sum(w for _, w in items)
    x = draw(st.integers(0, total - 1))
    for k, w in items:
        if x < w:
            return k
        x -= w
    return items[-1][0]


STRICT = ("hook", "finish", "yield", "break", "appendc")


@st.composite
def action(draw, env, allow=("assign", "assignstr", "delete", "hook", "appendc", "finish", "yield", "break"), last_ok=False):
    cfg = env.cfg
    cands = {}
    for k in allow:
        w = cfg.kinds.get(k, 0)
        if k == "break":
            w = 1 if env.loops else 0
        if k == "assign" and not (env.ints or env.bools or env.enums):
            w = 0
        if k == "assignstr" and not env.strs:
            w = 0
        if k in ("delete", "appendc") and not env.bufs:
            w = 0
        if k == "hook" and not env.prog.hooks:
            w = 0
        if k == "yield" and not (cfg.allow_yield and env.prog.ycodes):
            w = 0
        if w > 0:
            cands[k] = w
    if not cands:
        return None
    k = _weighted(draw, cands)
    if k == "assign":
        tgt = draw(st.sampled_from(env.ints + env.bools + env.enums))
        if tgt[0] == "int":
            return ("assign", tgt[1], draw(int_expr(env, draw(st.integers(0, 2)), last_ok)))
        if tgt[0] == "bool":
            if env.bools and draw(st.booleans()):
                other = draw(st.sampled_from(env.bools))[1]
                e = draw(st.sampled_from([("not", ("var", other)), ("var", other), ("bin", "&&", ("var", other), ("bool", True))]))
                return ("assign", tgt[1], e)
            return ("assign", tgt[1], ("bool", draw(st.booleans())))
        return ("assign", tgt[1], ("enum", draw(st.sampled_from(tgt[2]))))
    if k == "assignstr":
        tgt = draw(st.sampled_from(env.strs))
        cap = tgt[2] - (1 if tgt[3] else 0)
        n = draw(st.integers(0, max(0, min(cap, 3))))
        return ("assignstr", tgt[1], bytes(draw(st.lists(byte_st(cfg), min_size=n, max_size=n))))
    if k == "delete":
        return ("delete", draw(st.sampled_from(env.bufs))[1])
    if k == "appendc":
        return ("appendc", draw(st.sampled_from(env.bufs))[1], draw(int_expr(env, 1, last_ok)))
    if k == "hook":
        return ("hook", draw(st.sampled_from(env.prog.hooks)))
    if k == "finish":
        return ("finish", draw(st.sampled_from([None] + list(env.prog.fcodes))))
    if k == "yield":
        return ("yield", draw(st.sampled_from(env.prog.ycodes)))
    if k == "break":
        return ("break", draw(st.sampled_from([None] + [n for n in env.loops if n])))
    raise AssertionError(k)


def is_strict(s):
    if s[0] in STRICT:
        return True
    if s[0] == "assign":
        return _reads(s[2], s[1])
    if s[0] == "if":
        return True
    return False


def _reads(e, name):
    if e[0] in ("var", "len") and e[1] == name:
        return True
    if e[0] == "idx":
        return e[1] == name or _reads(e[2], name)
    if e[0] == "bin":
        return _reads(e[2], name) or _reads(e[3], name)
    if e[0] in ("not", "neg"):
        return _reads(e[1], name)
    return False


def _separator(draw, avoid):
    cands = [b for b in SEPS if b not in avoid] or [b for b in ALPHA + DIGITS if b not in avoid]
    if not cands:
        return None
    return ("match", ("lit", bytes([draw(st.sampled_from(cands))]), "str"))


@st.composite
def body(draw, env, depth, n_min=1, n_max=None, need_consuming=True, first_must_match=False, leading_actions=True,
         ends_with_break=False, allow_terminal=True):
    """A statement list whose lookahead is clean by construction (up to cfg.valid_bias)."""
    cfg = env.cfg
    n = draw(st.integers(n_min, n_max or cfg.max_stmts))
    out = []
    cur = ir.Summary((), True, ())
    consumed = False
    obey = draw(st.floats(0, 1)) < cfg.valid_bias or cfg.valid_bias >= 1.0     # (floats(0, 1) can be exactly 1.0)
    last_was_closed_match = False

    def push(s):
        nonlocal cur, consumed, last_was_closed_match
        problems = []
        ss = ir.stmt_summary(s, problems)
        if obey and not ir.is_action(s):
            clash = (cur.tail & ss.first)
            if clash:
                sep = _separator(draw, cur.tail)
                if sep is not None:
                    out.append(sep)
                    cur, _ = ir.seq_summaries([cur, ir.stmt_summary(sep, [])])
        if obey and s[0] in ("delete", "assignstr") and cur.tail and out and out[-1][0] == "append" and out[-1][1] == s[1]:
            # known finding (C01): a plain delete/assignment right after an open-ended append to the same buffer runs after every byte
            sep = _separator(draw, cur.tail)
            if sep is not None:
                out.append(sep)
                cur, _ = ir.seq_summaries([cur, ir.stmt_summary(sep, [])])
        if obey and ir.is_action(s) and is_strict(s) and cur.tail and consumed:
            sep = _separator(draw, cur.tail)
            if sep is not None:
                out.append(sep)
                cur, _ = ir.seq_summaries([cur, ir.stmt_summary(sep, [])])
        out.append(s)
        cur, _ = ir.seq_summaries([cur, ss])
        if not ir.is_action(s):
            consumed = True
        last_was_closed_match = s[0] in ("match", "append") and not ss.tail

    for i in range(n):
        weights = dict(cfg.kinds)
        if depth <= 0:
            for k in ("loop", "case", "optional", "try", "foreach", "if"):
                weights[k] = 0
        if not env.bufs:
            weights["append"] = 0
        if not cfg.allow_yield:
            weights["yield"] = 0
        if (i == 0 and (first_must_match or not leading_actions)) or (not consumed and not leading_actions):
            for k in ("appendc", "assign", "assignstr", "delete", "hook", "finish", "yield", "ifact"):
                weights[k] = 0
        if first_must_match and i == 0:
            for k in list(weights):
                if k not in ("match", "append"):
                    weights[k] = 0
        if not allow_terminal:
            weights["finish"] = 0
        if i < n - 1:
            weights["finish"] = 0       # finish in the middle makes the rest dead code
        k = _weighted(draw, weights)
        last_ok = cfg.allow_last and last_was_closed_match
        if k == "match":
            push(("match", draw(match(cfg, closed=None if draw(st.integers(0, 3)) else True))))
        elif k == "append":
            push(("append", draw(st.sampled_from(env.bufs))[1], draw(match(cfg, allow_cat=False))))
        elif k == "wait":
            push(("wait", draw(match(cfg, closed=True, allow_cat=False))))
        elif k in ("appendc", "assign", "assignstr", "delete", "hook", "finish", "yield"):
            a = draw(action(env, allow=(k,), last_ok=last_ok))
            if a is not None:
                push(a)
        elif k == "ifact":
            branches = []
            for _ in range(draw(st.integers(1, 2))):
                acts = [a for a in [draw(action(env, allow=("assign", "assignstr", "delete", "hook", "appendc", "break"), last_ok=False))
                                    for _ in range(draw(st.integers(1, 2)))] if a is not None]
                if cfg.kinds.get("finish", 0) and draw(st.integers(0, 4)) == 0:
                    # a branch that ends the parse (next to branches that break / append / just continue)
                    a = draw(action(env, allow=("finish",), last_ok=False))
                    if a is not None:
                        acts.append(a)
                if acts and draw(st.integers(0, 3)) == 0:
                    # nested action-only if (nested conditional actions on one transition)
                    k2 = draw(st.integers(0, len(acts) - 1))
                    acts[k2] = ("if", ((draw(condition(env, False)), (acts[k2],)),), None)
                if acts:
                    branches.append((draw(condition(env, last_ok)), tuple(acts)))
            if branches:
                eb = None
                if draw(st.booleans()):
                    a = draw(action(env, allow=("assign", "assignstr", "delete", "hook") + (("finish",) if cfg.kinds.get("finish", 0) else ()), last_ok=False))
                    eb = (a,) if a is not None else None
                push(("if", tuple(branches), eb))
        elif k == "loop":
            push(draw(loop_stmt(env, depth - 1, followed=(i < n - 1) or not allow_terminal)))
        elif k == "case":
            push(draw(case_stmt(env, depth - 1)))
        elif k == "optional":
            b = draw(body(env, depth - 1, 1, 3, first_must_match=True, leading_actions=False, allow_terminal=False))
            push(("optional", b))
        elif k == "try":
            b = draw(body(env, depth - 1, 1, 3, allow_terminal=False))
            if obey and ir.body_summary(b, []).tail:
                # a try body that ends by lookahead: which handler owns a mismatch at that boundary is not defined by the reference
                sep = _separator(draw, ir.body_summary(b, []).tail)
                if sep is not None:
                    b = b + (sep,)
            h = draw(body(env, depth - 1, 0, 2, need_consuming=False, allow_terminal=False))
            reasons = draw(st.sampled_from([None, None, ("nomatch",), ("outofspace",), ("nomatch", "outofspace")]))
            push(("try", reasons, b, h))
        elif k == "foreach":
            b = draw(body(env, depth - 1, 1, 2, first_must_match=True, leading_actions=False, allow_terminal=False))
            if draw(st.integers(0, 3)) == 0:
                # a wait inside the foreach body: its skipped bytes are read by the body too
                b = (("wait", draw(match(cfg, closed=True, allow_cat=False))),) + tuple(b[1:])
            # (no char-append among foreach actions: the reference does not say whether the triggering byte counts as consumed when it overflows)
            acts = [a for a in [draw(action(env, allow=("assign", "hook", "delete", "assignstr"), last_ok=cfg.allow_last))
                                for _ in range(draw(st.integers(1, 2)))] if a is not None]
            if obey:
                # the order of a per-byte action and a strict action of the body that nmfu schedules lazily on the same byte (e.g. the
                # first action of a case clause) is not defined by the reference: with strict actions in the body, the per-byte actions
                # are limited to ones whose position in that order cannot be observed
                strict_inside = []
                ir.walk(b, lambda s_: strict_inside.append(1) if (ir.is_action(s_) and is_strict(s_)) else None)
                if strict_inside:
                    acts = [a for a in acts if a[0] in ("assignstr", "delete") or (a[0] == "assign" and a[2][0] in ("num", "chr", "bool", "enum"))]
            if cfg.allow_last and draw(st.booleans()):
                # per-byte decision on the byte itself: if $last ... { <actions that do not read $last> }
                inner = [a for a in [draw(action(env, allow=("assign", "assignstr", "delete"), last_ok=False))] if a is not None]
                if inner:
                    cond = ("bin", draw(st.sampled_from([">=", "<", "==", "!="])), ("last",), ("num", draw(st.sampled_from([48, 97, 98, 100, 128])), "dec"))
                    acts.append(("if", ((cond, tuple(inner)),), None))
            if acts:
                push(("foreach", b, tuple(acts)))
            else:
                for s in b:
                    push(s)
        elif k == "if":
            branches = []
            for _ in range(draw(st.integers(1, 2))):
                branches.append((draw(condition(env, last_ok)), draw(body(env, depth - 1, 1, 2, allow_terminal=False))))
            eb = draw(body(env, depth - 1, 1, 2, allow_terminal=False)) if draw(st.booleans()) else None
            push(("if", tuple(branches), eb))
    if need_consuming and not consumed:
        push(("match", draw(literal(cfg))))
    if ends_with_break and env.loops:
        push(("break", None))
    if obey and out:
        # open finding (C01): actions that follow a block whose last consuming statement may be skipped (optional, ...) are lost on the
        # skip path.  Blocks therefore end with a closed statement after such a construct.
        last_consuming = next((x for x in reversed(out) if not ir.is_action(x)), None)
        if last_consuming is not None and last_consuming[0] != "loop" and ir.stmt_summary(last_consuming, []).nullable:
            sep = _separator(draw, cur.tail)
            if sep is not None:
                push(sep)
    return tuple(out)


@st.composite
def loop_stmt(draw, env, depth, followed):
    name = None
    env.loop_counter += 1
    if draw(st.booleans()):
        name = "lp%d" % env.loop_counter
    env.loops.append(name)
    try:
        cfg = env.cfg
        shape = draw(st.sampled_from(["case-else-break", "case-break", "if-break", "body-then-case"] + ([] if followed else ["bare", "bare"])))
        if shape == "if-break" and not (cfg.allow_last or env.ints):
            shape = "case-else-break"
        if shape == "bare":
            # a loop that is never left (legal as the last statement): body must consume
            b = draw(body(env, depth, 1, 3, allow_terminal=False))
            return ("loop", name, b)
        if shape in ("case-else-break", "case-break", "body-then-case"):
            pre = ()
            if shape == "body-then-case":
                pre = draw(body(env, depth, 1, 2, first_must_match=False, allow_terminal=False))
                if draw(st.booleans()):
                    # loop start actions: run once per iteration
                    a = draw(action(env, allow=("hook", "assign", "assignstr", "delete")))
                    if a is not None:
                        pre = (a,) + tuple(pre)
            clauses = []
            used_first = set()
            for _ in range(draw(st.integers(1, 2))):
                p = draw(literal(cfg, 1, 2))
                if p[1][0] in used_first or (p[2] == "casei" and (p[1][0] ^ 0x20) in used_first):
                    continue
                used_first.add(p[1][0])
                if p[2] == "casei":
                    used_first.add(p[1][0] ^ 0x20)
                b = draw(body(env, depth, 0, 2, need_consuming=False, allow_terminal=False))
                clauses.append(((p,), None, b))
            brk = ("break", name if (name and draw(st.booleans())) else None)
            if shape == "case-break":
                p = draw(literal(cfg, 1, 1))
                if p[1][0] not in used_first and not (p[2] == "casei"):
                    pre_acts = draw(body(env, 0, 0, 1, need_consuming=False, allow_terminal=False))
                    clauses.append(((p,), None, tuple(pre_acts) + (brk,)))
                else:
                    clauses.append((("else",), None, (brk,)))
            else:
                clauses.append((("else",), None, (brk,)))
            if not clauses:
                clauses.append((("else",), None, (brk,)))
            post = ()
            if draw(st.integers(0, 2)) == 0:
                # actions behind the case: run at the end of every iteration that was not left by a break
                a = draw(action(env, allow=("hook", "hook", "assign", "assignstr", "delete")))
                if a is not None:
                    post = (a,)
            return ("loop", name, tuple(pre) + (("case", False, tuple(clauses)),) + post)
        # if-break: a closed match, then a conditional break on data
        m = draw(match(cfg, closed=True, allow_cat=False))
        if env.ints and draw(st.booleans()):
            # counting loop: the break really happens after k iterations
            v = draw(st.sampled_from(env.ints))[1]
            k = draw(st.integers(1, 3))
            brk = (("break", None),)
            if draw(st.integers(0, 2)) == 0:
                # the break sits two action-only ifs deep
                brk = (("if", ((("bin", ">=", ("var", v), ("num", k, "dec")), brk),), None),)
                if env.prog.hooks and draw(st.booleans()):
                    brk = brk + (("hook", draw(st.sampled_from(env.prog.hooks))),)
            return ("loop", name, (("match", m), ("assign", v, ("bin", "+", ("var", v), ("num", 1, "dec"))),
                                   ("if", ((("bin", draw(st.sampled_from(["==", ">="])), ("var", v), ("num", k, "dec")), brk),), None)))
        cond = draw(condition(env, last_ok=cfg.allow_last))
        eb = None
        if cfg.kinds.get("finish", 0) and draw(st.integers(0, 3)) == 0:
            # leave the loop or end the parse
            a = draw(action(env, allow=("finish",)))
            eb = (a,) if a is not None else None
        return ("loop", name, (("match", m), ("if", ((cond, (("break", None),)),), eb)))
    finally:
        env.loops.pop()


@st.composite
def case_stmt(draw, env, depth):
    cfg = env.cfg
    greedy = cfg.allow_greedy and draw(st.integers(0, 4)) == 0
    n = draw(st.integers(1, 4))
    clauses = []
    cores = []
    for i in range(n):
        pats = []
        for _ in range(draw(st.sampled_from([1, 1, 1, 2]))):
            p = draw(match(cfg, closed=(None if greedy else True), allow_cat=(draw(st.integers(0, 5)) == 0)))
            c = ir.match_core(p)
            if c is None or rx.nullable(c):
                continue
            if not greedy and any(ir.prefix_conflict(c, o) for o in cores):
                if draw(st.floats(0, 1)) < cfg.valid_bias:
                    continue
            cores.append(c)
            pats.append(p)
        if not pats:
            continue
        b = draw(body(env, depth, 0, 2, need_consuming=False, allow_terminal=False))
        prio = draw(st.sampled_from([None, None, 0, 1, 2, -1])) if greedy else None
        clauses.append((tuple(pats), prio, b))
    if draw(st.booleans()) or not clauses:
        b = draw(body(env, depth, 0, 2, need_consuming=False, allow_terminal=False))
        if clauses and draw(st.integers(0, 3)) == 0:
            # else combined with a pattern clause
            pats, prio, b0 = clauses[-1]
            clauses[-1] = (pats + ("else",), prio, b0)
        else:
            clauses.append((("else",), None, b))
    if not any(p != "else" for pats, _, _ in clauses for p in pats):
        clauses.insert(0, ((draw(literal(cfg)),), None, ()))
    return ("case", greedy, tuple(clauses))


# ------------------------------------------------------------------------------------------------ programs

OPT_LEVELS = ["-O0", "-O1", "-O2", "-O3"]


@st.composite
def outputs(draw, cfg):
    outs = []
    for i in range(draw(st.integers(*cfg.n_ints))):
        signed, size = draw(st.sampled_from(cfg.int_kinds))
        d = draw(st.sampled_from([0, 1, 2, 5, 100])) if (cfg.defaults_always or draw(st.booleans())) else None
        if d is not None and size == 1 and signed and d > 127:
            d = 5
        outs.append(("int", "n%d" % i, signed, size, d))
    for i in range(draw(st.integers(*cfg.n_bools))):
        outs.append(("bool", "b%d" % i, draw(st.booleans()) if (cfg.defaults_always or draw(st.booleans())) else None))
    for i in range(draw(st.integers(*cfg.n_enums))):
        vals = ("EA", "EB", "EC")[:draw(st.integers(2, 3))]
        outs.append(("enum", "e%d" % i, vals, None))
    for i in range(draw(st.integers(*cfg.n_strs))):
        size = draw(st.sampled_from(cfg.str_sizes))
        term = draw(st.integers(0, 3)) != 0
        if term and size < 2:
            size = 2
        cap = size - (1 if term else 0)
        d = None
        isbin = False
        if draw(st.integers(0, 3)) == 0:
            n = draw(st.integers(0, min(cap, 3)))
            d = bytes(draw(st.lists(st.sampled_from(ALPHA + DIGITS + [0x00, 0x80, 0xff, 0x0a]), min_size=n, max_size=n)))
            isbin = draw(st.booleans()) and n > 0
        outs.append(("str", "s%d" % i, size, term, d, isbin))
    for i in range(draw(st.integers(*cfg.n_raws))):
        outs.append(("raw", "r%d" % i, draw(st.sampled_from(cfg.raw_types))))
    return outs


@st.composite
def program(draw, cfg):
    outs = draw(outputs(cfg))
    hooks = ["h%d" % i for i in range(draw(st.integers(*cfg.n_hooks)))]
    fcodes = ["F%d" % i for i in range(draw(st.integers(*cfg.n_fcodes)))]
    ycodes = ["Y%d" % i for i in range(draw(st.integers(*cfg.n_ycodes)))] if cfg.allow_yield else []
    prog = ir.Program(outs, hooks, fcodes, ycodes)
    env = Env(prog, cfg)
    prog.body = draw(body(env, draw(st.integers(0, cfg.max_depth)), 1, cfg.max_stmts))
    argv = [draw(st.sampled_from(OPT_LEVELS))]
    if cfg.allow_yield:
        argv.append("-fyield-support")
    if cfg.allow_end:
        argv.append("-feof-support")
    prog.argv = argv
    return prog


# ------------------------------------------------------------------------------------------------ focused family: ways of leaving a loop

@st.composite
def break_loop_program(draw, eof=False):
    """loop { <token>; n0 = [n0 + 1]; <break in one of several positions> } <tail>: the break is really taken after k iterations and
    more input follows in the same chunk. Returns (program, inputs)."""
    from . import ir as _ir
    tok = draw(st.sampled_from([b"a", b"ab", b"7"]))
    k = draw(st.integers(1, 3))
    cond = ("bin", draw(st.sampled_from([">=", "=="])), ("var", "n0"), ("num", k, "dec"))
    brk = ("break", draw(st.sampled_from([None, "lp0"])))
    where = draw(st.sampled_from(["if", "if-if", "if-if-trailing", "if-else", "case-clause", "case-clause-trailing", "if-if-else", "case-else-then-if",
                                  "case-yield-then-if", "if-at-start", "else-if-at-start"]
                                 + (["if-at-start", "else-if-at-start"] * 4 + ["if", "if-if", "case-else-then-if"] if eof else [])))
    count = ("assign", "n0", ("bin", "+", ("var", "n0"), ("num", 1, "dec")))
    hook = ("hook", "h0")
    if where == "if":
        inner = (("match", ("lit", tok, "str")), count, ("if", ((cond, (brk,)),), None))
    elif where == "if-if":
        inner = (("match", ("lit", tok, "str")), count, ("if", ((cond, (hook, ("if", ((cond, (brk,)),), None))),), None))
    elif where == "if-if-trailing":
        inner = (("match", ("lit", tok, "str")), count,
                 ("if", ((("bin", ">=", ("var", "n0"), ("num", 1, "dec")), (("if", ((cond, (brk,)),), None), ("assign", "n1", ("num", 7, "dec")))),), None))
    elif where == "if-else":
        inner = (("match", ("lit", tok, "str")), count, ("if", ((("bin", "<", ("var", "n0"), ("num", k, "dec")), (hook,)),), (brk,)))
    elif where == "if-if-else":
        inner = (("match", ("lit", tok, "str")), count,
                 ("if", ((("bin", ">=", ("var", "n0"), ("num", 0, "dec")), (("if", ((("bin", "<", ("var", "n0"), ("num", k, "dec")), (hook,)),), (brk,)),)),), None))
    elif where == "if-at-start":
        # the conditional break sits among the actions at the top of the loop body: on the way round it rides on a transition that consumes nothing
        inner = (("if", ((cond, (brk,)),), None), ("match", ("lit", tok, "str")), count)
    elif where == "else-if-at-start":
        inner = (("case", False, ((((("lit", tok, "str"),), None, (count,))), (("else",), None, (("if", ((cond, (brk,)),), None), ("match", ("lit", b"bc", "str")))))),)
    elif where in ("case-else-then-if", "case-yield-then-if"):
        # one conditional break object behind a case whose arms end differently (consuming / falling through / resuming after a yield)
        count1 = ("assign", "n1", ("bin", "+", ("var", "n1"), ("num", 1, "dec")))
        either = ("bin", "||", cond, ("bin", ">=", ("var", "n1"), ("num", k, "dec")))
        if where == "case-else-then-if":
            inner = (("match", ("lit", b"b", "str")), ("case", False, ((((("lit", tok, "str"),), None, (count,))), (("else",), None, (count1,)))),
                     ("if", ((either, (brk,)),), None))
        else:
            inner = (("case", False, ((((("lit", tok, "str"),), None, (count,))), (((("lit", b"b", "str"),), None, (count1, ("yield", "Y0"))))),),
                     ("if", ((either, (brk,)),), None))
    elif where == "case-clause":
        inner = (("case", False, ((((("lit", tok, "str"),), None, (count,))), (((("lit", b";", "str"),), None, (brk,))))),)
    else:
        inner = (("case", False, ((((("lit", tok, "str"),), None, (count,))), (((("lit", b";", "str"),), None, (brk,))))), hook)
    tail_kind = draw(st.sampled_from(["literal", "same-token", "optional", "append", "nothing", "optional-only"] + (["nothing", "optional-only"] * 2 if eof else [])))
    if where == "else-if-at-start" and tail_kind == "same-token":
        tail_kind = "literal"
    if tail_kind == "literal":
        tail = (("match", ("lit", b"end", "str")), hook)
    elif tail_kind == "same-token":
        tail = (("match", ("lit", tok + b"!", "str")),)
    elif tail_kind == "nothing":
        tail = ()
    elif tail_kind == "optional-only":
        tail = (("optional", (("match", ("lit", b"e", "str")), hook)),)
    elif tail_kind == "optional":
        tail = (("optional", (("match", ("lit", b"e", "str")), hook)), ("match", ("lit", b".", "str")))
    else:
        tail = (("append", "s0", ("re", ("op", ("set", (("r", 0x61, 0x66),), False), "+"), False)), ("match", ("lit", b".", "str")))
    body = (("loop", "lp0", inner),) + tail
    yld = where == "case-yield-then-if"
    prog = _ir.Program([("int", "n0", False, None, 0), ("int", "n1", False, None, 0), ("str", "s0", 4, True, None, False)], ["h0"], [], ["Y0"] if yld else [], [], body,
                       [draw(st.sampled_from(OPT_LEVELS + ["-O3"] if where.endswith("then-if") else OPT_LEVELS))] + (["-fyield-support"] if yld else []))
    sep = b";" if where.startswith("case-clause") else b""
    datas = []
    if where.endswith("then-if"):
        one_a = (b"b" + tok) if where == "case-else-then-if" else tok
        for head in (one_a * k, b"b" * k, one_a * (k - 1) + b"b" * k, b"b" * (k - 1) + one_a * k, one_a + b"b" * k):
            for t in (b"end", b"e.", b".", tok + b"!", b""):
                datas.append(head + t)
        if eof:
            prog.argv.append("-feof-support")
        return prog, datas
    for extra in (0, 1):
        head = tok * (k + extra) + sep
        for t in (b"end", tok + b"!", b"e.", b".", b"abc.", b""):
            datas.append(head + t)
    if eof:
        prog.argv.append("-feof-support")
        datas = [d for d in datas if len(d) <= len(tok) * (k + 1) + 1][:8] + datas
    return prog, datas


# ------------------------------------------------------------------------------------------------ focused family: per-byte decisions on $last

@st.composite
def last_foreach_program(draw):
    """<lead>; foreach { <wildcard-ish field> } do { n0 = [n0 + 1]; if $last OP v { n1 = [n1 + 1]; } [hook] } <tail>: what is done for a
    byte depends on that byte's value, in states that otherwise do not look at their input. Returns (program, inputs)."""
    from . import ir as _ir
    v = draw(st.sampled_from([0x62, 0x80, 0x30, 0x64]))
    op = draw(st.sampled_from([">=", "<", "==", "!="]))
    k = draw(st.integers(1, 4))
    field_kind = draw(st.sampled_from(["dots", "dots", "binary-any", "rep", "not-z", "class"]))
    if field_kind == "dots":
        field = ("re", ("seq", tuple(("any",) for _ in range(k))) if k > 1 else ("any",), False)
    elif field_kind == "binary-any":
        field = ("re", ("seq", tuple(("any",) for _ in range(k))) if k > 1 else ("any",), True)
    elif field_kind == "rep":
        field = ("re", ("rep", ("any",), k, None), False)
    elif field_kind == "not-z":
        field = ("re", ("op", ("set", (("c", 0x7a),), True), "+"), False)
    else:
        field = ("re", ("rep", ("set", (("r", 0x30, 0x39), ("r", 0x61, 0x66), ("c", 0x80 if False else 0x5f)), False), k, None), False)
    acts = [("assign", "n0", ("bin", "+", ("var", "n0"), ("num", 1, "dec"))),
            ("if", ((("bin", op, ("last",), ("num", v, "dec")), (("assign", "n1", ("bin", "+", ("var", "n1"), ("num", 1, "dec"))),)),), None)]
    if draw(st.booleans()):
        acts = acts[1:]
    if draw(st.integers(0, 3)) == 0:
        acts.append(("hook", "h0"))
    lead = draw(st.sampled_from([(), (("match", ("lit", b"a", "str")),), (("match", ("re", ("set", (("r", 0x61, 0x63),), False), False)),)]))
    tail = (("match", ("lit", b"z", "str")),)
    body = lead + (("foreach", (("match", field),), tuple(acts)),) + tail
    prog = _ir.Program([("int", "n0", False, 2, 0), ("int", "n1", False, 2, 0)], ["h0"], [], [], [], body, [draw(st.sampled_from(OPT_LEVELS))])
    pool = [v - 1, v, v + 1, 0x61, 0x39] if v < 0xff else [v - 1, v, 0x61]
    if field_kind == "class":
        pool = [0x30, 0x39, 0x61, 0x66, 0x5f, v] if v in (0x30, 0x62, 0x64) else [0x30, 0x61, 0x5f, 0x66]
    datas = []
    for _ in range(6):
        n = k if field_kind in ("dots", "binary-any", "rep", "class") else draw(st.integers(1, 5))
        mid = bytes(draw(st.lists(st.sampled_from([b for b in pool if b != 0x7a]), min_size=n, max_size=n)))
        datas.append((b"a" if lead else b"") + mid + b"z")
    return prog, datas


# ------------------------------------------------------------------------------------------------ focused family: append + yield on one transition, string too small

@st.composite
def yield_overflow_program(draw):
    """try { s0 += <closed pattern>; yield Y0; ... } catch (outofspace) { <handler> } <tail> with a string that the pattern may or may not fit into:
    at -O3 the yield rides on the transition of the pattern's last byte together with the append, so the byte that overflows is one for which the
    pointer has already been moved on. Returns (program, inputs)."""
    from . import ir as _ir
    size = draw(st.integers(2, 4))
    term = draw(st.booleans())
    cap = size - 1 if term else size
    plen = draw(st.sampled_from([cap + 1, cap + 1, cap + 1, cap, cap + 2, max(1, cap - 1)]))     # cap + 1: the last byte is the one that does not fit
    word = b"abcdefgh"[:plen]
    if draw(st.booleans()):
        pat = ("lit", word, "str")
    else:
        pat = ("re", ("seq", tuple(("set", (("r", 0x61, 0x68),), False) for _ in range(plen))) if plen > 1 else ("set", (("r", 0x61, 0x68),), False), False)
    after = draw(st.sampled_from([(("yield", "Y0"),), (("hook", "h0"), ("yield", "Y0")), (("yield", "Y0"), ("hook", "h0")),
                                  (("yield", "Y0"), ("match", ("lit", b"-", "str")), ("yield", "Y1")), (("assign", "n0", ("num", 3, "dec")), ("yield", "Y0"))]))
    hk = draw(st.sampled_from(["same-byte", "same-byte-more", "wait", "actions-only", "other-byte"]))
    off = word[cap:cap + 1] or b"z"
    if hk == "same-byte":
        handler = (("match", ("lit", off, "str")), ("assign", "n0", ("num", 7, "dec")))
    elif hk == "same-byte-more":
        handler = (("match", ("lit", off + b"xy", "str")), ("assign", "n0", ("num", 7, "dec")), ("yield", "Y1"))
    elif hk == "wait":
        handler = (("wait", ("lit", b"!", "str")), ("assign", "n0", ("num", 7, "dec")))
    elif hk == "actions-only":
        handler = (("assign", "n0", ("num", 7, "dec")), ("hook", "h0"))
    else:
        handler = (("match", ("lit", b"Q", "str")),)
    reasons = draw(st.sampled_from([("outofspace",), None]))
    in_loop = draw(st.integers(0, 3)) == 0
    tr = ("try", reasons, (("append", "s0", pat),) + after, handler)
    if in_loop and draw(st.booleans()):
        # the yield is the last thing in the loop body: control comes straight back to the append
        one = ("re", ("set", (("r", 0x61, 0x68),), False), False)
        tight = ("try", ("outofspace",), (("append", "s0", one),) + after[:2 if after[-1][0] == "yield" else 1], (("delete", "s0"),))
        body = (("loop", None, (tight,)),)
    elif in_loop:
        body = (("loop", None, (tr, ("match", ("lit", b",", "str")), ("delete", "s0"))),)
    else:
        body = (tr, ("match", ("lit", b".", "str")), ("hook", "h0"))
    prog = _ir.Program([("str", "s0", size, term, None, False), ("int", "n0", False, None, 0)], ["h0"], [], ["Y0", "Y1"], [], body,
                       [draw(st.sampled_from(["-O3", "-O3"] + list(OPT_LEVELS))), "-fyield-support"])
    datas = []
    for w in (word, word[:cap] + off + b"xy", word[:cap] + b"Q"):
        for t in (b".", b"-.", b"!.", b",", b"xy.", b""):
            datas.append(w + t + (word + b"," + word if in_loop else b""))
    return prog, datas


# ------------------------------------------------------------------------------------------------ focused family: branches chosen by constant expressions

@st.composite
def const_branch_program(draw):
    """<lead>; if <constant comparison> { <match>; h0(); } [elif <constant comparison> { ... }] else { <match>; } <tail>: which branch exists at all is
    decided by the compiler's own arithmetic wherever it folds constants; it must be C's arithmetic. Returns (program, inputs)."""
    from . import ir as _ir
    cfg = GenConfig(const_conditions=10)
    env = type("E", (), {"cfg": cfg, "ints": [], "bools": [], "bufs": []})()
    nb = draw(st.integers(1, 2))
    letters = [b"b", b"c", b"d"]
    branches = tuple((draw(condition(env)), (("match", ("lit", letters[j], "str")), ("hook", "h0"), ("assign", "n0", ("num", j + 1, "dec")))) for j in range(nb))
    else_body = (("match", ("lit", b"e", "str")), ("assign", "n0", ("num", 9, "dec"))) if draw(st.booleans()) else None
    lead = draw(st.sampled_from([(("match", ("lit", b"a", "str")),), (), (("match", ("lit", b"a", "str")), ("hook", "h0"))]))
    stmt = ("if", branches, else_body)
    if draw(st.integers(0, 2)) == 0:
        stmt = ("loop", None, (stmt, ("match", ("lit", b",", "str"))))
    body = lead + (stmt, ("match", ("lit", b";", "str")))
    prog = _ir.Program([("int", "n0", True, None, 0)], ["h0"], [], [], [], body, [draw(st.sampled_from(OPT_LEVELS))])
    datas = [b"a" + x + t for x in (b"b", b"c", b"d", b"e", b"") for t in (b";", b",b;", b",e;")] + [x + b";" for x in (b"b", b"c", b"e")]
    return prog, datas
