"""Legal code-generation option combinations (always produced through the real CLI resolver)."""
from hypothesis import strategies as st

REPR_FLAGS = [
    "-fallocate-str-space-dynamic", "-fallocate-str-space-dynamic-on-demand", "-fdelete-string-free-memory",
    "-fstrings-as-u8", "-fhook-per-state", "-finclude-user-ptr", "-fuse-packed-enums", "-fuse-pragma-once",
    "-fno-use-cplusplus-guard", "-fzero-len-input-support",
]
OTHER_FLAGS = ["-fstrict-done-token-generation", "-funsafe-string-indexing", "-findirect-start-ptr"]
STORAGE = [[], ["-fallocate-str-space-dynamic"], ["-fallocate-str-space-dynamic-on-demand"],
           ["-fallocate-str-space-dynamic-on-demand", "-fdelete-string-free-memory"],
           ["-fallocate-str-space-dynamic", "-fdelete-string-free-memory"]]


@st.composite
def repr_options(draw, indirect=None):
    """A representation-only option set (C12's domain)."""
    argv = list(draw(st.sampled_from(STORAGE)))
    for f in ["-fstrings-as-u8", "-fhook-per-state", "-finclude-user-ptr", "-fuse-packed-enums", "-fuse-pragma-once",
              "-fno-use-cplusplus-guard", "-fzero-len-input-support"]:
        if draw(st.integers(0, 2)) == 0:
            argv.append(f)
    if indirect is True or (indirect is None and draw(st.booleans())):
        argv.append("-findirect-start-ptr")
    if draw(st.integers(0, 2)) == 0:
        # (30 / 300: longer than a run of digits / than any run, i.e. collapsing effectively off for those)
        argv += ["--collapsed-range-length", str(draw(st.sampled_from([0, 1, 2, 4, 6, 12, 30, 300])))]
        argv.append("-fcollapse-transition-ranges")
    return argv


@st.composite
def codegen_options(draw, indirect=None):
    argv = draw(repr_options(indirect))
    if draw(st.integers(0, 3)) == 0:
        argv.append("-fstrict-done-token-generation")
    return argv
