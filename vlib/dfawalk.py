"""
Structural walking of nmfu's compiled DFA for language-level product searches (C07, C08, C16).
Only the *selection rule* is interpreted here (first transition in list order naming the symbol, else the Else
transition); actions are ignored except that their presence is reported.
"""
import nmfu

DFT = nmfu.DFTransition
END = 256


class Tables:
    def __init__(self, compiled):
        self.c = compiled
        self.dfa = compiled.dfa
        self.fail = compiled.dctx.generic_fail_state
        self.accepting = set(id(s) for s in self.dfa.accepting_states)
        self._tab = {}

    def table(self, state):
        """list of 257 transitions (or None): index = byte, 256 = END"""
        t = self._tab.get(id(state))
        if t is not None:
            return t
        tab = [None] * 257
        else_t = None
        for tr in state.transitions:
            if DFT.Else in tr.on_values and else_t is None:
                else_t = tr
        for tr in state.transitions:
            if tr is else_t:
                continue
            for v in tr.on_values:
                if v is DFT.End:
                    i = END
                elif v is DFT.Else:
                    continue
                else:
                    i = ord(v)
                    if i > 255:
                        continue
                if tab[i] is None:
                    tab[i] = tr
        for i in range(257):
            if tab[i] is None:
                tab[i] = else_t
        self._tab[id(state)] = tab
        return tab

    def is_accepting(self, state):
        return id(state) in self.accepting

    def step(self, state, sym):
        """Follow one symbol, resolving fallthrough chains without actions.
        Returns ('go', state) | ('fail',) | ('stuck',) | ('complex', transition)"""
        seen = 0
        while True:
            if state is self.fail:
                return ("fail",)
            if isinstance(state, nmfu.DFConditionPoint):
                return ("complex", None)
            tr = self.table(state)[sym]
            if tr is None:
                return ("stuck",)
            if tr.target is self.fail or tr.target is None:
                return ("fail",)
            if not tr.is_fallthrough:
                return ("go", tr.target, tr)
            state = tr.target
            seen += 1
            if seen > 1000:
                return ("complex", tr)


def product_search(tabs, start_state, auto, max_pairs=20000, check_end=True):
    """
    Compare the compiled matcher starting at start_state with the derivative automaton `auto` (vlib.rx.Auto).
    Returns None or (kind, word, detail); word is a shortest witness (list of symbols, 256 = END).
    """
    from . import rx
    start = (auto.start, start_state)
    seen = {(auto.start, id(start_state)): None}
    order = [(auto.start, start_state, ())]
    i = 0
    while i < len(order):
        q, s, word = order[i]
        i += 1
        acc_rx = rx.nullable(q)
        acc_nm = tabs.is_accepting(s)
        if acc_rx != acc_nm:
            return ("accept-mismatch", list(word), "after %r the language says %s, the compiled matcher says %s" %
                    (bytes(word), "accept" if acc_rx else "not accepted", "accepting" if acc_nm else "not accepting"))
        if check_end:
            r = tabs.step(s, END)
            if r[0] == "go" and not r[2].error_handling:
                return ("end-matched-by-data", list(word) + [END], "end-of-input is matched by a data transition")
        for cls in auto.classes:
            # all bytes of an rx class behave alike on the rx side; the nmfu side is checked for every byte
            nq = rx.deriv(q, min(cls))
            targets = {}
            for b in sorted(cls):
                r = tabs.step(s, b)
                if r[0] == "complex":
                    return ("complex", list(word) + [b], "matcher contains non-regex structure")
                dead_nm = r[0] in ("fail", "stuck") or (r[0] == "go" and r[2].error_handling)
                dead_rx = nq == rx.EMPTY
                if dead_rx != dead_nm:
                    return ("mismatch-at-byte", list(word) + [b],
                            "after %r byte 0x%02x: the language %s, the compiled matcher %s" %
                            (bytes(word), b, "has no continuation" if dead_rx else "continues", "reports a mismatch" if dead_nm else "continues"))
                if not dead_nm:
                    targets.setdefault(id(r[1]), (r[1], b))
            if nq != rx.EMPTY:
                for tid, (ts, b) in targets.items():
                    key = (nq, tid)
                    if key not in seen:
                        seen[key] = True
                        if len(seen) > max_pairs:
                            return ("too-large", list(word), "product exceeds %d pairs" % max_pairs)
                        order.append((nq, ts, word + (b,)))
    return None
