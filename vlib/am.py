"""
AM: abstract machine that executes the DFState / DFTransition / Action objects of a compiled program
(DESIGN.md section 3.2).  It reads nmfu's data structures but shares no code with DFA.simulate or codegen.

API:
    m = Machine(compiled)
    cfg, res = m.start()                   # Result(code, ptr, events)
    res = m.feed(cfg, data)                # mutates cfg; ptr = offset inside `data` where *start is left
    res = m.end(cfg)
Codes are the integers of the generated enum (OK=0, FAIL=1, DONE=2, FINISH_*, YIELD_*).
"""
import nmfu

from . import carith
from .carith import Undefined

OST = nmfu.OutputStorageType
DFT = nmfu.DFTransition
OK, FAIL, DONE = 0, 1, 2


class Spin(Exception):
    """Exact configuration repeat inside one call without consuming input."""

    def __init__(self, where, trail):
        super().__init__(where)
        self.trail = trail


class Broken(Exception):
    """The compiled machine is structurally ill-formed for execution (e.g. action after a yield)."""


class Cfg:
    __slots__ = ("state", "vars")

    def __init__(self, state, vars_):
        self.state = state
        self.vars = vars_

    def copy(self):
        return Cfg(self.state, {k: (bytearray(v) if isinstance(v, bytearray) else v) for k, v in self.vars.items()})

    def frozen_vars(self):
        return tuple((k, bytes(v) if isinstance(v, bytearray) else v) for k, v in sorted(self.vars.items()))

    def key(self):
        return (id(self.state), self.frozen_vars())


class Result:
    __slots__ = ("code", "ptr", "events", "stuck")

    def __init__(self, code, ptr, events, stuck=False):
        self.code = code
        self.ptr = ptr
        self.events = events
        self.stuck = stuck

    def __repr__(self):
        return "<Result code=%s ptr=%s events=%r%s>" % (self.code, self.ptr, self.events, " STUCK" if self.stuck else "")


class _Return(Exception):
    def __init__(self, code):
        self.code = code


class _Redispatch(Exception):
    def __init__(self, consumed=False):
        self.consumed = consumed      # out-of-space of a char-append: the carrying transition has consumed its byte


class _SkipRest(Exception):
    pass


class Machine:
    def __init__(self, compiled, max_steps=20000):
        self.c = compiled
        self.dfa = compiled.dfa
        self.states = self.dfa.states
        self.index = {id(s): i for i, s in enumerate(self.states)}
        self.fail = compiled.dctx.generic_fail_state
        self.accepting = set(id(s) for s in self.dfa.accepting_states)
        self.spec = list(compiled.dctx.state_object_spec.values())
        self.by_name = {o.name: o for o in self.spec}
        self.start_actions = list(compiled.dctx.start_actions)
        self.finish_codes = list(compiled.dctx.finish_codes)
        self.yield_codes = list(compiled.dctx.yield_codes)
        F = nmfu.ProgramFlag
        fl = compiled.flags
        self.strict_done = fl[F.STRICT_DONE_TOKEN_GENERATION]
        self.unsafe_index = fl[F.UNSAFE_STRING_INDEXING]
        self.u8 = fl[F.STRINGS_AS_U8]
        self.zero_len = fl[F.ZERO_LEN_INPUT_SUPPORT]
        self.eof = fl[F.EOF_SUPPORT]
        self.max_steps = max_steps
        self.overflow_log = []      # (source state, action) of out-of-space redirects in the current call
        self.cond_break_log = []    # breaks taken inside a conditional action in the current call
        self.handler_log = []       # error-handling transitions taken (mismatch handed to a handler) in the current call
        self._cur_source = None
        self.needs_end_check = self.zero_len or any(
            any(a.may_return_early() for a in t.actions) for s in self._reachable() for t in s.transitions)
        self.raw_sizes = {"int8_t": 1, "uint8_t": 1, "int16_t": 2, "uint16_t": 2, "int32_t": 4, "uint32_t": 4,
                          "int64_t": 8, "uint64_t": 8, "float": 4, "double": 8}

    # ---------------------------------------------------------------- structure helpers
    def _reachable(self):
        return list(self.dfa.dfs())

    def idx(self, state):
        if state is self.fail and id(state) not in self.index:
            return len(self.index)      # the fail state was optimised away: any value outside the state range stands for it
        return self.index.get(id(state), -1)

    def is_accepting(self, state):
        return id(state) in self.accepting

    def var_type(self, o):
        if o.type == OST.INT:
            return carith.int_type(o.int_signed, o.int_width)
        if o.type == OST.BOOL:
            return carith.BOOL
        if o.type == OST.ENUM:
            return carith.UINT
        raise Broken("not a scalar")

    def capacity(self, o):
        if o.type == OST.STR:
            return o.effective_string_size()
        size = self.raw_sizes.get(o.raw_underlying)
        if size is None:
            raise Undefined("raw type of unknown size")
        return size

    def counter_type(self, o):
        if o.type == OST.STR:
            return carith.counter_type(o.str_size)
        return carith.counter_type(self.raw_sizes.get(o.raw_underlying))

    def code_of_finish(self, action):
        if isinstance(action, nmfu.CustomFinishAction):
            return 3 + self.finish_codes.index(action.result_code)
        return DONE

    def code_of_yield(self, action):
        return 3 + len(self.finish_codes) + self.yield_codes.index(action.result_code)

    # ---------------------------------------------------------------- expressions
    def eval(self, e, cfg, inval, ctx_end=False, ctx_start=False):
        if isinstance(e, nmfu.LiteralIntegerExpr):
            if e.typ == OST.INT:
                return carith.lit(e.value)
            if e.typ == OST.BOOL:
                return (carith.INT, 1 if e.value else 0)
            if e.typ == OST.ENUM:
                return (carith.INT, e.model_ref.enum_values.index(e.value))
            raise Broken("literal type")
        if isinstance(e, nmfu.OutIntegerExpr):
            o = e.ref
            if o.type in (OST.STR, OST.RAW):
                raise Broken("buffer used as scalar")
            v = cfg.vars[o.name]
            if v is None:
                raise Undefined("read of output without default before assignment")
            return (self.var_type(o), v)
        if isinstance(e, nmfu.StringLengthIntegerExpr):
            return (self.counter_type(e.ref), len(cfg.vars[e.ref.name]))
        if isinstance(e, nmfu.StringRefIntegerExpr):
            o = e.ref
            idx = self.eval(e.index, cfg, inval, ctx_end, ctx_start)
            size = o.str_size if o.type == OST.STR else self.capacity(o)
            buf = cfg.vars[o.name]
            if not self.unsafe_index:
                ge = carith.cmp(">=", idx, carith.lit(0))
                inside = carith.truth(ge) and carith.truth(carith.cmp("<", idx, carith.lit(size)))
                if not inside:
                    return (carith.INT, 0)
            i = idx[1]
            if i < 0 or i >= size:
                raise Undefined("unsafe index out of range")
            if i < len(buf):
                b = buf[i]
            elif self.unsafe_index:
                raise Undefined("unsafe index beyond the stored length (only in-range unsafe indexing is in scope)")
            elif i == len(buf) and o.type == OST.STR and o.str_null:
                b = 0
            else:
                raise Undefined("read of buffer byte beyond the stored length")
            return (carith.INT, b)      # the byte value, whatever the buffer's element type
        if isinstance(e, nmfu.LastCharIntegerExpr):
            if ctx_start:
                raise Broken("$last in start context")
            return (carith.U8, 255 if ctx_end else inval)
        if isinstance(e, nmfu.SumIntegerExpr):
            acc = self.eval(e.children[0], cfg, inval, ctx_end, ctx_start)
            for ch, ng in zip(e.children[1:], e.negate[1:]):
                v = self.eval(ch, cfg, inval, ctx_end, ctx_start)
                acc = carith.sub(acc, v) if ng else carith.add(acc, v)
            return acc
        if isinstance(e, nmfu.MulIntegerExpr):
            acc = self.eval(e.children[0], cfg, inval, ctx_end, ctx_start)
            for ch, op in zip(e.children[1:], e.divide[1:]):
                v = self.eval(ch, cfg, inval, ctx_end, ctx_start)
                if op == nmfu.MulIntegerExprOp.MUL:
                    acc = carith.mul(acc, v)
                elif op == nmfu.MulIntegerExprOp.DIV:
                    acc = carith.div(acc, v)
                else:
                    acc = carith.mod(acc, v)
            return acc
        if isinstance(e, nmfu.CompareIntegerExpr):
            return carith.cmp(e.op.value, self.eval(e.left, cfg, inval, ctx_end, ctx_start), self.eval(e.right, cfg, inval, ctx_end, ctx_start))
        if isinstance(e, nmfu.DisjunctionIntegerExpr):
            for ch in e.children:
                if carith.truth(self.eval(ch, cfg, inval, ctx_end, ctx_start)):
                    return (carith.INT, 1)
            return (carith.INT, 0)
        if isinstance(e, nmfu.ConjunctionIntegerExpr):
            for ch in e.children:
                if not carith.truth(self.eval(ch, cfg, inval, ctx_end, ctx_start)):
                    return (carith.INT, 0)
            return (carith.INT, 1)
        if isinstance(e, nmfu.BitwiseIntegerExpr):
            acc = self.eval(e.children[0], cfg, inval, ctx_end, ctx_start)
            for ch in e.children[1:]:
                acc = carith.bitop(e.op.value, acc, self.eval(ch, cfg, inval, ctx_end, ctx_start))
            return acc
        if isinstance(e, nmfu.BitShiftIntegerExpr):
            l = self.eval(e.left, cfg, inval, ctx_end, ctx_start)
            r = self.eval(e.right, cfg, inval, ctx_end, ctx_start)
            return carith.shl(l, r) if e.towards_left else carith.shr(l, r)
        raise Broken("unknown expression node %r" % (e,))

    def cond_true(self, cond, cfg, inval, ctx_end=False, ctx_start=False):
        if isinstance(cond, nmfu.ConstantCondition):
            return bool(cond.value)
        if isinstance(cond, nmfu.IntegerCondition):
            return carith.truth(self.eval(cond.expr, cfg, inval, ctx_end, ctx_start))
        raise Broken("unknown condition")

    # ---------------------------------------------------------------- actions
    def snapshot(self, cfg):
        return cfg.frozen_vars()

    def run_action(self, a, cfg, inval, events, in_start=False, in_end=False):
        """Executes one action. Raises _Return / _Redispatch / _SkipRest for control effects."""
        if isinstance(a, nmfu.FinishAction):
            raise _Return(self.code_of_finish(a))
        if isinstance(a, nmfu.CustomYieldAction):
            raise _Return(self.code_of_yield(a))
        if isinstance(a, nmfu.SetTo):
            o = a.into_storage
            v = self.eval(a.value_expr, cfg, inval, in_end, in_start)
            cfg.vars[o.name] = carith.convert(self.var_type(o), v[1])
            events.append(("set", o.name, cfg.vars[o.name], bool(a.is_timing_strict())))
            return
        if isinstance(a, nmfu.SetToStr):
            o = a.into_storage
            s = a.value_expr
            data = s.encode("latin-1") if isinstance(s, str) else bytes(s)
            if len(data) > self.capacity(o):
                raise Broken("literal too long for output (should have been diagnosed)")
            cfg.vars[o.name] = bytearray(data)
            events.append(("setstr", o.name, bytes(data)))
            return
        if isinstance(a, nmfu.DeleteBuf):
            cfg.vars[a.into_storage.name] = bytearray()
            events.append(("delete", a.into_storage.name))
            return
        if isinstance(a, (nmfu.AppendTo, nmfu.AppendCharTo)):
            o = a.into_storage
            buf = cfg.vars[o.name]
            if len(buf) == self.capacity(o):
                cfg.state = a.end_target
                events.append(("overflow", o.name, "char" if isinstance(a, nmfu.AppendCharTo) else "byte"))
                self.overflow_log.append((self._cur_source, a))
                raise _Redispatch()
            if isinstance(a, nmfu.AppendTo):
                if in_start:
                    raise Broken("match append in start actions")
                b = 255 if in_end else inval
            else:
                v = self.eval(a.append_value, cfg, inval, in_end, in_start)
                b = carith.convert(carith.U8, v[1])
            buf.append(b)
            events.append(("append", o.name, b))
            return
        if isinstance(a, nmfu.CallHook):
            events.append(("hook", a.name, 0 if in_start else (255 if in_end else inval), self.snapshot(cfg)))
            return
        if isinstance(a, nmfu.ConditionalAction):
            for cond in a.conditions:
                if self.cond_true(cond, cfg, inval, in_end, in_start):
                    self._cond_depth = getattr(self, "_cond_depth", 0) + 1
                    try:
                        for sub in a.sub_actions[cond]:
                            self.run_action(sub, cfg, inval, events, in_start, in_end)
                    finally:
                        self._cond_depth -= 1
                    break
            return
        if isinstance(a, nmfu.BreakAction):
            if getattr(self, "_cond_depth", 0) > 0:
                self.cond_break_log.append(a)       # a break taken under a data condition (inside an action-only if)
            events.append(("break",))
            for sub in a.replacement_actions():
                self.run_action(sub, cfg, inval, events, in_start, in_end)
            cfg.state = a.refers_to.end_state
            raise _SkipRest()
        raise Broken("unknown action %r" % (a,))

    # ---------------------------------------------------------------- API: start
    def initial_vars(self):
        vars_ = {}
        for o in self.spec:
            if o.type in (OST.STR, OST.RAW):
                d = o.default_value
                if d is None:
                    vars_[o.name] = bytearray()
                else:
                    vars_[o.name] = bytearray(d.encode("latin-1") if isinstance(d, str) else bytes(d))
            else:
                if o.default_value is None:
                    vars_[o.name] = 0      # the driver zeroes scalars without default (DESIGN 2.6)
                else:
                    cfg0 = Cfg(None, vars_)
                    v = self.eval(o.default_value, cfg0, 0, ctx_start=True)
                    vars_[o.name] = carith.convert(self.var_type(o), v[1])
        return vars_

    def start(self):
        cfg = Cfg(self.dfa.starting_state, self.initial_vars())
        events = []
        try:
            for a in self.start_actions:
                try:
                    self.run_action(a, cfg, 0, events, in_start=True)
                except _Redispatch:
                    return cfg, Result(OK, -1, events)
                except _SkipRest:
                    return cfg, Result(OK, -1, events)
        except _Return as r:
            return cfg, Result(r.code, -1, events)
        return cfg, Result(OK, -1, events)

    # ---------------------------------------------------------------- transition selection
    def select(self, state, sym):
        """sym: int byte, or DFT.End. Returns transition or None. First match in list order, else the Else transition."""
        if isinstance(state, nmfu.DFConditionPoint):
            raise Broken("select on condition point")
        ch = chr(sym) if isinstance(sym, int) else sym
        else_t = None
        for t in state.transitions:
            if DFT.Else in t.on_values:
                if else_t is None:
                    else_t = t
                continue
        for t in state.transitions:
            if t is else_t:
                continue
            if ch in t.on_values:
                return t
        return else_t

    def immediate_done(self, t):
        return (self.is_accepting(t.target) and not self.strict_done
                and all(x.error_handling for x in t.target.transitions))

    # ---------------------------------------------------------------- API: feed
    def feed(self, cfg, data):
        data = bytes(data)
        n = len(data)
        events = []
        if n == 0:
            if self.needs_end_check:
                return Result(OK, 0, events)
            raise Undefined("zero-length chunk without zero-length support")
        ptr = 0
        inval = data[0]
        seen = set()
        steps = 0
        self.overflow_log = []
        self.cond_break_log = []
        self.handler_log = []
        while True:
            steps += 1
            if steps > self.max_steps:
                raise Spin("step bound", None)
            key = (cfg.key(), ptr)
            if key in seen:
                raise Spin("configuration repeat in feed", (self.idx(cfg.state), ptr))
            seen.add(key)
            st = cfg.state
            if st is self.fail:
                return Result(FAIL, ptr, events)
            if self.idx(st) < 0:
                raise Broken("state not in machine")
            if isinstance(st, nmfu.DFConditionPoint):
                t = None
                for ct in st.transitions:
                    if self.cond_true(ct.condition, cfg, inval):
                        t = ct
                        break
                if t is None:
                    return Result(FAIL, ptr, events)
            else:
                if self.strict_done and self.is_accepting(st) and st.transitions and all(x.error_handling for x in st.transitions):
                    return Result(DONE, ptr, events)      # the postponed DONE of strict-done mode
                t = self.select(st, inval)
                if t is None:
                    return Result(DONE if self.is_accepting(st) else OK, ptr, events, stuck=True)
            # ---- transition body
            self._cur_source = st
            if getattr(t, "error_handling", False) and t.is_fallthrough:
                self.handler_log.append(st)
            target_known = id(t.target) in self.index
            if target_known:
                cfg.state = t.target
            early = any(a.may_return_early() for a in t.actions)
            imm = self.immediate_done(t)
            advanced = False
            if early and not t.is_fallthrough and not imm:
                ptr += 1
                advanced = True
            try:
                try:
                    for a in t.actions:
                        self.run_action(a, cfg, inval, events)
                except _SkipRest:
                    pass
            except _Return as r:
                return Result(r.code, ptr, events)
            except _Redispatch as rd:
                if rd.consumed and not t.is_fallthrough and not isinstance(t, nmfu.DFConditionalTransition):
                    if not advanced:
                        ptr += 1
                    if ptr == n:
                        return Result(OK, ptr, events)
                    inval = data[ptr]
                    seen.clear()
                elif advanced:
                    # the transition had moved the pointer on ahead of a yield / finish among its actions, but the byte is not consumed
                    # after all: the out-of-space handler gets to see it, so the pointer stays on it
                    ptr -= 1
                continue
            if t.is_fallthrough:
                if target_known:
                    continue
                return Result(DONE if self.is_accepting(st) else OK, ptr, events, stuck=True)
            if imm:
                return Result(DONE, ptr, events)
            if not target_known:
                return Result(DONE if self.is_accepting(st) else OK, ptr, events, stuck=True)
            if not advanced:
                ptr += 1
            if ptr == n:
                return Result(OK, ptr, events)
            if ptr > n:
                raise Broken("start pointer advanced past the end of the chunk (ptr=%d, chunk length %d)" % (ptr, n))
            inval = data[ptr]
            seen.clear()

    # ---------------------------------------------------------------- API: end
    def end(self, cfg):
        res = self._end(cfg)
        if res.code == FAIL:
            # once FAIL, always FAIL: end() that finds the input incomplete leaves the machine in the fail state
            cfg.state = self.fail
        return res

    def _end(self, cfg):
        if not self.eof:
            raise Undefined("no end function")
        events = []
        seen = set()
        inval = 255
        while True:
            key = cfg.key()
            if key in seen:
                raise Spin("configuration repeat in end", self.idx(cfg.state))
            seen.add(key)
            st = cfg.state
            if st is self.fail:
                return Result(FAIL, -1, events)
            if isinstance(st, nmfu.DFConditionPoint):
                t = None
                for ct in st.transitions:
                    if self.cond_true(ct.condition, cfg, inval, ctx_end=True):
                        t = ct
                        break
                if t is None:
                    return Result(FAIL, -1, events)
            else:
                t = self.select(st, DFT.End)
                if t is None or (t.error_handling and self.is_accepting(st)):
                    return Result(DONE if self.is_accepting(st) else FAIL, -1, events)
            target_known = id(t.target) in self.index
            if target_known:
                cfg.state = t.target
            try:
                try:
                    for a in t.actions:
                        self.run_action(a, cfg, inval, events, in_end=True)
                except _SkipRest:
                    pass
            except _Return as r:
                return Result(r.code, -1, events)
            except _Redispatch:
                continue
            if t.is_fallthrough:
                if target_known:
                    continue
                return Result(DONE if self.is_accepting(st) else FAIL, -1, events)
            # the documented contract: DONE iff the end pattern completed the program
            return Result(DONE if self.is_accepting(cfg.state) else FAIL, -1, events)

    # ---------------------------------------------------------------- convenience
    def run(self, chunks, call_end=False):
        """Start, feed the chunks, optionally end; returns list of (what, Result) and the final cfg."""
        cfg, r = self.start()
        out = [("start", r)]
        for ch in chunks:
            res = self.feed(cfg, ch)
            out.append(("feed", res))
        if call_end:
            out.append(("end", self.end(cfg)))
        return out, cfg
