"""
CARITH: C integer arithmetic on Python ints (LP64, gcc/clang on x86-64).

A value is (ctype, int).  ctype = (signed: bool, bits: int).  Operators apply the integer promotions and the
usual arithmetic conversions.  Anything undefined in C raises Undefined (such cases are discarded, never
judged).  Out-of-range conversion to a signed type is implementation-defined in C; gcc and clang both define
it as reduction modulo 2^N, which is what `convert` does (assumption recorded by the checks that use it).
"""

INT = (True, 32)
UINT = (False, 32)
LONG = (True, 64)
ULONG = (False, 64)
U8 = (False, 8)
S8 = (True, 8)
BOOL = (False, 1)     # _Bool: promoted to int; stores normalise to 0/1


class Undefined(Exception):
    pass


def type_range(t):
    s, b = t
    if t == BOOL:
        return 0, 1
    if s:
        return -(1 << (b - 1)), (1 << (b - 1)) - 1
    return 0, (1 << b) - 1


def convert(t, v):
    """Conversion on store / cast (modulo; see module doc)."""
    if t == BOOL:
        return 1 if v != 0 else 0
    s, b = t
    v &= (1 << b) - 1
    if s and v >= (1 << (b - 1)):
        v -= 1 << b
    return v


def fits(t, v):
    lo, hi = type_range(t)
    return lo <= v <= hi


def promote(t):
    """Integer promotion."""
    s, b = t
    if t == BOOL or b < 32:
        return INT
    return t


def usual(t1, t2):
    t1, t2 = promote(t1), promote(t2)
    if t1 == t2:
        return t1
    (s1, b1), (s2, b2) = t1, t2
    if s1 == s2:
        return t1 if b1 >= b2 else t2
    # one signed, one unsigned
    (us, ub), (ss, sb) = ((s1, b1), (s2, b2)) if not s1 else ((s2, b2), (s1, b1))
    if ub >= sb:
        return (False, ub)
    # signed type can represent all values of the unsigned type (e.g. long vs unsigned int)
    return (True, sb)


def literal_type(v):
    """Type of an unsuffixed decimal integer constant."""
    if fits(INT, v):
        return INT
    if fits(LONG, v):
        return LONG
    raise Undefined("decimal constant does not fit long")


def lit(v):
    """A (possibly negative) number as nmfu emits it: str(v) - for negatives that is unary minus on a constant."""
    if v >= 0:
        return (literal_type(v), v)
    t = literal_type(-v)
    return neg((t, -v))


def _arith(t, v, what):
    if t[0]:
        if not fits(t, v):
            raise Undefined("signed overflow in " + what)
        return (t, v)
    return (t, convert(t, v))


def add(a, b):
    t = usual(a[0], b[0])
    return _arith(t, convert(t, a[1]) + convert(t, b[1]), "+")


def sub(a, b):
    t = usual(a[0], b[0])
    return _arith(t, convert(t, a[1]) - convert(t, b[1]), "-")


def mul(a, b):
    t = usual(a[0], b[0])
    return _arith(t, convert(t, a[1]) * convert(t, b[1]), "*")


def _trunc_div(x, y):
    q = abs(x) // abs(y)
    return q if (x >= 0) == (y >= 0) else -q


def div(a, b):
    t = usual(a[0], b[0])
    x, y = convert(t, a[1]), convert(t, b[1])
    if y == 0:
        raise Undefined("division by zero")
    q = _trunc_div(x, y)
    if t[0] and not fits(t, q):
        raise Undefined("INT_MIN / -1")
    return (t, q if t[0] else convert(t, q))


def mod(a, b):
    t = usual(a[0], b[0])
    x, y = convert(t, a[1]), convert(t, b[1])
    if y == 0:
        raise Undefined("modulo by zero")
    q = _trunc_div(x, y)
    if t[0] and not fits(t, q):
        raise Undefined("INT_MIN % -1")
    return (t, x - q * y)


def neg(a):
    t = promote(a[0])
    return _arith(t, -convert(t, a[1]), "unary -")


def shl(a, b):
    t = promote(a[0])
    x = convert(t, a[1])
    n = convert(promote(b[0]), b[1])
    if n < 0 or n >= t[1]:
        raise Undefined("shift count out of range")
    if t[0]:
        if x < 0:
            raise Undefined("left shift of negative value")
        r = x << n
        if not fits(t, r):
            raise Undefined("left shift overflows signed type")
        return (t, r)
    return (t, convert(t, x << n))


def shr(a, b):
    t = promote(a[0])
    x = convert(t, a[1])
    n = convert(promote(b[0]), b[1])
    if n < 0 or n >= t[1]:
        raise Undefined("shift count out of range")
    # right shift of a negative value is implementation-defined; gcc/clang: arithmetic shift
    return (t, x >> n)


def bitop(op, a, b):
    t = usual(a[0], b[0])
    x, y = convert(t, a[1]), convert(t, b[1])
    mask = (1 << t[1]) - 1
    if op == "&":
        r = (x & mask) & (y & mask)
    elif op == "|":
        r = (x & mask) | (y & mask)
    else:
        r = (x & mask) ^ (y & mask)
    return (t, convert(t, r))


def cmp(op, a, b):
    t = usual(a[0], b[0])
    x, y = convert(t, a[1]), convert(t, b[1])
    r = {"<": x < y, ">": x > y, "<=": x <= y, ">=": x >= y, "==": x == y, "!=": x != y}[op]
    return (INT, 1 if r else 0)


def truth(a):
    return a[1] != 0


def int_type(signed, width_bytes):
    """C type nmfu declares for `int{signed?, size N}` (N in bytes; None = 4)."""
    if width_bytes is None:
        return (bool(signed), 32)
    if width_bytes not in (1, 2, 4, 8):
        raise Undefined("unsupported width")
    return (bool(signed), width_bytes * 8)


def counter_type(maxval):
    """Unsigned type nmfu picks for a counter that must hold maxval (None -> uint32_t)."""
    if maxval is None:
        return (False, 32)
    if maxval < 256:
        return (False, 8)
    if maxval < 65536:
        return (False, 16)
    if maxval < (1 << 32):
        return (False, 32)
    return (False, 64)
