"""
Child process of C20: compiles a history of programs, perturbs the heap, compiles the target, prints a JSON
fingerprint.  PYTHONHASHSEED is chosen by the parent through the environment.
"""
import hashlib
import json
import re
import sys


def main():
    job = json.load(sys.stdin)
    from vlib import am as am_mod
    from vlib import front, walk
    keep = []
    for src, argv in job.get("history", []):
        out = front.compile_src(src, argv, clear=False)
        if job.get("keep_history_alive"):
            keep.append(out)
    # heap perturbation: allocate and free objects in a pattern derived from the job so that id() order moves
    p = job.get("perturb", 0)
    junk = []
    for i in range(p * 37 % 1000):
        junk.append([object() for _ in range((i * 7 + p) % 13)])
    for i in range(0, len(junk), 2 + p % 3):
        junk[i] = None
    src, argv = job["target"]
    out = front.compile_src(src, argv, clear=False)
    # (the interpreter's own limits are part of the state a compilation must not leak into the next one: they are left alone until here)
    sys.setrecursionlimit(max(10000, sys.getrecursionlimit()))
    res = {"kind": out.kind, "stage": out.stage, "exc": type(out.exc).__name__ if out.exc is not None else None}
    if out.accepted:
        comp = out.compiled
        norm = lambda t: re.sub(r"skipaction_\d+", "skipaction_N", re.sub(r"0x[0-9a-f]+", "0xADDR", t))  # noqa: E731
        res["c_hash"] = hashlib.sha1((norm(comp.source) + norm(comp.header)).encode()).hexdigest()
        m = am_mod.Machine(comp)
        sig = []
        for s in comp.dfa.states:
            row = []
            for t in s.transitions:
                row.append((sorted(repr(v) for v in t.on_values), m.idx(t.target), t.is_fallthrough, t.error_handling,
                            [type(a).__name__ for a in t.actions]))
            sig.append((type(s).__name__, m.is_accepting(s), row))
        res["struct_hash"] = hashlib.sha1(repr(sig).encode()).hexdigest()
        res["nstates"] = len(comp.dfa.states)
        lines = []

        def visit(word, tls, cfgs):
            tl = tls[0]
            lines.append((word.hex(), tl.events, tl.terminal, sorted(tl.final.items()) if tl.final else None, tl.stuck))
        try:
            stats = walk.joint_walk([m], job["alphabet"], job["max_len"], visit, node_cap=job.get("node_cap", 1500))
            res["walk_nodes"] = stats["nodes"]
            res["behaviour_hash"] = hashlib.sha1(repr(lines).encode()).hexdigest()
        except am_mod.Undefined:
            res["behaviour_hash"] = "undefined-at-start"
        except am_mod.Broken as e:
            res["behaviour_hash"] = "broken:" + str(e)
    else:
        res["msg_head"] = (out.msg or "").split("\n")[0][:80]
    json.dump(res, sys.stdout)


if __name__ == "__main__":
    main()
